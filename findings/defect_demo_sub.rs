// Demonstrations of the two C13 defects F7 / F8 (DESIGN.md section 5) against the REAL code of src/sub.rs.
// Not part of any check.  Usage (scratch copy of /repo, never /repo itself); the module must be a child of `sub`
// to reach the private backend:
//   echo '#[cfg(test)] #[path = "/verif/findings/defect_demo_sub.rs"] mod verif_defect_demo_sub;' >> src/sub.rs
//   cargo test --offline --lib verif_defect_demo_sub -- --test-threads 1
// Both tests FAIL on the tree before the fix: commits and PASS after them.
use super::*;
use crate::codec::FramedIo;
use futures::io::{AsyncRead, AsyncWrite};
use std::pin::Pin;
use std::sync::Mutex as StdMutex;
use std::task::{Context, Poll};

/// a connection whose peer never says anything
struct Silent;
impl AsyncRead for Silent {
    fn poll_read(self: Pin<&mut Self>, _cx: &mut Context<'_>, _buf: &mut [u8]) -> Poll<std::io::Result<usize>> {
        Poll::Pending
    }
}
/// a connection that accepts every write and keeps the octets
#[derive(Clone, Default)]
struct Tap(Arc<StdMutex<Vec<u8>>>);
impl AsyncWrite for Tap {
    fn poll_write(self: Pin<&mut Self>, _cx: &mut Context<'_>, buf: &[u8]) -> Poll<std::io::Result<usize>> {
        self.0.lock().unwrap().extend_from_slice(buf);
        Poll::Ready(Ok(buf.len()))
    }
    fn poll_flush(self: Pin<&mut Self>, _cx: &mut Context<'_>) -> Poll<std::io::Result<()>> {
        Poll::Ready(Ok(()))
    }
    fn poll_close(self: Pin<&mut Self>, _cx: &mut Context<'_>) -> Poll<std::io::Result<()>> {
        Poll::Ready(Ok(()))
    }
}
/// a connection that has been reset: every write fails
struct Broken;
impl AsyncWrite for Broken {
    fn poll_write(self: Pin<&mut Self>, _cx: &mut Context<'_>, _buf: &[u8]) -> Poll<std::io::Result<usize>> {
        Poll::Ready(Err(std::io::ErrorKind::BrokenPipe.into()))
    }
    fn poll_flush(self: Pin<&mut Self>, _cx: &mut Context<'_>) -> Poll<std::io::Result<()>> {
        Poll::Ready(Err(std::io::ErrorKind::BrokenPipe.into()))
    }
    fn poll_close(self: Pin<&mut Self>, _cx: &mut Context<'_>) -> Poll<std::io::Result<()>> {
        Poll::Ready(Ok(()))
    }
}

fn occurrences(hay: &[u8], needle: &[u8]) -> usize {
    hay.windows(needle.len()).filter(|w| *w == needle).count()
}
/// how often the peer behind `tap` has been told to subscribe to `topic`, minus the cancels (RFC 29 counting)
fn told(tap: &Tap, topic: &str) -> i64 {
    let wire = tap.0.lock().unwrap().clone();
    let mut sub = vec![0x00, (topic.len() + 1) as u8, 0x01];
    sub.extend_from_slice(topic.as_bytes());
    let mut cancel = vec![0x00, (topic.len() + 1) as u8, 0x00];
    cancel.extend_from_slice(topic.as_bytes());
    occurrences(&wire, &sub) as i64 - occurrences(&wire, &cancel) as i64
}

async fn attach_good(s: &SubSocket) -> Tap {
    let tap = Tap::default();
    let io = FramedIo::new(Box::new(Silent), Box::new(tap.clone()));
    s.backend.clone().peer_connected(&PeerIdentity::new(), io).await;
    tap
}
async fn attach_broken(s: &SubSocket) {
    let io = FramedIo::new(Box::new(Silent), Box::new(Broken));
    s.backend.clone().peer_connected(&PeerIdentity::new(), io).await;
}

/// F7: "A failure on one peer's connection does not prevent the other peers from being updated."
/// scc traverses the table in an order of its own, so several broken and several healthy peers are attached: on the
/// defective code a healthy peer behind the first broken one is skipped (all six healthy ones in front of all six
/// broken ones happens once in 924 orders).
#[tokio::test]
async fn f7_a_broken_peer_does_not_keep_the_others_from_hearing_a_subscribe() {
    let mut s = SubSocket::new();
    let mut good = Vec::new();
    for _ in 0..6 {
        good.push(attach_good(&s).await);
        attach_broken(&s).await;
    }
    let _ = s.subscribe("topic").await;
    for (i, g) in good.iter().enumerate() {
        assert_eq!(told(g, "topic"), 1, "healthy peer {i} was not told about the subscription");
    }
}

/// F8: "all peers agree on whether a given topic is subscribed" - also a late joiner.
#[tokio::test]
async fn f8_early_and_late_peers_agree_after_a_repeated_subscribe() {
    let mut s = SubSocket::new();
    let early = attach_good(&s).await;
    s.subscribe("a").await.unwrap();
    s.subscribe("a").await.unwrap();
    s.unsubscribe("a").await.unwrap();
    let late = attach_good(&s).await;
    assert_eq!(told(&early, "a") > 0, told(&late, "a") > 0,
               "the early peer counts {} for \"a\", the late joiner {}", told(&early, "a"), told(&late, "a"));
}
