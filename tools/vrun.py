"""Run Verus on a generated unit and turn its diagnostics into named obligations."""
import json
import os
import re
import subprocess
import sys
import time
from dataclasses import dataclass, field, asdict
from typing import List, Optional

sys.path.insert(0, os.path.dirname(__file__))
import extract

VERIF = os.path.dirname(os.path.dirname(os.path.abspath(__file__)))
EXT = os.path.join(VERIF, '.cache', 'ext')
TOOLCHAIN = '1.98.1-x86_64-unknown-linux-gnu'

# Verus messages that are failed proof obligations (everything else that is an error is "undecided")
VERIF_MSG = [
    (r'^postcondition not satisfied', 'post'),
    (r'^precondition not satisfied', 'pre'),
    (r'^precondition not met', 'pre'),
    (r'^invariant not satisfied before loop', 'inv-entry'),
    (r'^invariant not satisfied at end of loop body', 'inv-end'),
    (r'^assertion failed', 'assert'),
    (r'^possible arithmetic underflow/overflow', 'overflow'),
    (r'^possible division by zero', 'div0'),
    (r'^possible bit shift underflow/overflow', 'shift'),
    (r'^could not prove termination', 'decreases'),
    (r'^decreases not satisfied', 'decreases'),
    (r'^unreachable.*reached|^reached unreachable', 'unreachable'),
    (r'^failed to apply|^cannot show', 'assert'),
    (r'^loop invariant not satisfied', 'inv-end'),
    (r'^loop invariant .* not', 'inv-end'),
    (r'^recursive function must have a decreases clause|^loop must have a decreases clause', 'decreases'),
]
RESOURCE_MSG = [r'Resource limit \(rlimit\) exceeded', r'rlimit exceeded', r'solver.*timed? ?out', r'^while loop: Resource limit']
IGNORE_MSG = [r'^aborting due to', r'^function body check: not all errors', r'^For more information']


def ensure_ext():
    """build the real `bytes` crate with Verus's toolchain (done by setup_cmd; repeated here if missing)"""
    rlib = os.path.join(EXT, 'libbytes.rlib')
    if os.path.exists(rlib):
        return rlib
    os.makedirs(EXT, exist_ok=True)
    lock = open('/repo/Cargo.lock').read()
    m = re.search(r'name = "bytes"\nversion = "([^"]+)"', lock)
    ver = m.group(1)
    import glob
    srcs = glob.glob(os.path.expanduser('~/.cargo/registry/src/*/bytes-%s/src/lib.rs' % ver))
    if not srcs:
        raise extract.Undecided('bytes-%s source not in the cargo registry' % ver)
    subprocess.run(['rustc', '+' + TOOLCHAIN, '--edition', '2021', '--crate-type', 'rlib', '--crate-name', 'bytes',
                    '--cfg', 'feature="std"', '--cap-lints', 'allow', '--out-dir', EXT, srcs[0]], check=True,
                   env=dict(os.environ, CARGO_NET_OFFLINE='true'))
    return rlib


@dataclass
class Failure:
    unit: str
    fn: str                 # display name of the function that owns the obligation
    kind: str
    message: str
    line: int               # line in generated file
    span_text: str          # normalised text of the primary span
    origin: str             # 'real <file>:<line>' | 'spec <directive>' | 'tmpl'
    exit_text: str = ''     # for postconditions: the exit the failure was reported at
    rendered: str = ''
    obligation: str = ''
    col: int = 0            # column of the primary span in the generated file

    def ident(self):
        return self.obligation


@dataclass
class UnitResult:
    unit: str
    ok: bool = False
    undecided: Optional[str] = None
    failures: List[Failure] = field(default_factory=list)
    verified: int = 0
    errors: int = 0
    fn_results: dict = field(default_factory=dict)     # verus fn path -> {'success':..,'time_ms':..,'mode':..}
    wall_s: float = 0.0
    smt_ms: int = 0
    cmd: str = ''
    path: str = ''
    unit_obj: object = None
    linemap: list = None
    text: str = ''
    other_errors: List[str] = field(default_factory=list)
    dropped_hints: List[str] = field(default_factory=list)   # proof hints that no longer hold and were left out (see run_unit)


def normalise(s: str) -> str:
    return re.sub(r'\s+', ' ', s.strip())


def fn_for_line(u: extract.Unit, text_lines: List[str], line: int) -> str:
    """which function (extracted or template) encloses generated line `line`"""
    best = None
    for f in u.fns:
        if f.out_first and f.out_first - 12 <= line <= f.out_last:
            # spliced spec lines sit between signature and body: inside [out_first, out_last]
            if f.out_first <= line <= f.out_last:
                return f.fn
    # template function: search upwards for `fn name`
    for k in range(line - 1, max(-1, line - 400), -1):
        m = re.match(r'\s*(?:pub(?:\([a-z]+\))?\s+)?(?:open |closed |broadcast |uninterp )*(?:spec |proof |exec )?fn\s+([A-Za-z_0-9]+)', text_lines[k])
        if m:
            return 'tmpl::' + m.group(1)
    return '?'


HINT_ORIGIN = re.compile(r'^spec (hint|loopbody\d*|loopend\d*|afterloop\d*):')


def blank_statement(text: str, line: int, col: int) -> Optional[str]:
    """blank out (keeping every newline) the `assert ..;` / `assert .. by {..}` statement whose asserted expression
    starts at (line, col); None if it cannot be delimited"""
    lines = text.split('\n')
    if not (0 < line <= len(lines)):
        return None
    off = sum(len(x) + 1 for x in lines[:line - 1]) + max(0, col - 1)
    k = text.rfind('assert', max(0, off - 400), off + 6)
    if k < 0 or not re.match(r'assert\b', text[k:k + 7]):
        return None
    # the statement must start a line of a spliced hint (nothing but blanks before it)
    depth = 0
    i = k
    n = len(text)
    end = None
    opened_brace = False
    while i < n:
        c = text[i]
        if c == '/' and text[i:i + 2] == '//':
            i = text.find('\n', i)
            if i < 0:
                return None
            continue
        if c == '"':
            j = i + 1
            while j < n and text[j] != '"':
                j += 2 if text[j] == '\\' else 1
            i = j + 1
            continue
        if c in '([{':
            if c == '{' and depth == 0:
                opened_brace = True
            depth += 1
        elif c in ')]}':
            depth -= 1
            if depth < 0:
                return None
            if c == '}' and depth == 0 and opened_brace:
                end = i + 1
                m = re.match(r'\s*;', text[end:end + 8])
                if m:
                    end += m.end()
                break
        elif c == ';' and depth == 0:
            end = i + 1
            break
        i += 1
    if end is None:
        return None
    blank = ''.join(ch if ch == '\n' else ' ' for ch in text[k:end])
    return text[:k] + blank + text[end:]


def run_unit(name: str, repo: str = '/repo', extra_args: List[str] = None, text_override: str = None,
             tag: str = '', timeout: int = 600, rlimit: Optional[int] = None) -> UnitResult:
    r = run_unit_once(name, repo, extra_args, text_override, tag, timeout, rlimit)
    # A proof hint (an `assert` spliced in as a lemma step: `hint`, `loopbody`, `loopend`, `afterloop` directives) is
    # an aid for the solver, not an obligation of any property.  After an edit of the code a hint may stop being true
    # while every contract still holds - and Verus ASSUMES a failed assertion for the rest of the body, so nothing
    # after it can be trusted either way.  So: leave the failed hints out and verify again.  What then fails is a real
    # obligation (postcondition, invariant, precondition, await-point invariant, safety) and is reported as such; if
    # nothing fails the code satisfies its contracts without those hints.
    if text_override is not None:
        return r
    dropped = []
    for _round in range(4):
        hints = [f for f in r.failures if f.kind == 'assert' and HINT_ORIGIN.match(f.origin or '')]
        if not hints or r.undecided or not r.text:
            break
        text = r.text
        done = []
        for f in sorted(hints, key=lambda f: (-f.line, -f.col)):
            t2 = blank_statement(text, f.line, f.col)
            if t2 is not None:
                text = t2; done.append(f.obligation)
        if not done:
            break
        dropped += done
        fixed = text
        r2 = run_unit_once(name, repo, extra_args, (lambda _t, _u, _lm, fixed=fixed: fixed), tag, timeout, rlimit)
        r2.dropped_hints = list(dropped)
        r = r2
    return r


def run_unit_once(name: str, repo: str = '/repo', extra_args: List[str] = None, text_override: str = None,
                  tag: str = '', timeout: int = 600, rlimit: Optional[int] = None) -> UnitResult:
    r = _run_unit(name, repo, extra_args, text_override, tag, timeout, rlimit)
    # `await-try` clauses mention a place (e.g. the peer table) that may be mutably borrowed at that suspension point
    # in the current code: rustc then rejects the ghost read.  Such a clause is optional by declaration: retry without.
    if r.undecided and r.other_errors and all(re.search(r'cannot borrow .* as immutable because it is also borrowed as mutable', e) for e in r.other_errors):
        lines_ok = True
        for e in r.other_errors:
            m = re.search(r'@(\d+)$', e)
            o = r.linemap[int(m.group(1)) - 1] if (m and r.linemap and 0 < int(m.group(1)) <= len(r.linemap)) else None
            if not (o and o[0] == 'ins' and str(o[1]).startswith('awaittry')):
                lines_ok = False
        if lines_ok:
            extract._tls.no_await_try = True      # thread-local: other units being built in parallel are unaffected
            try:
                r2 = _run_unit(name, repo, extra_args, text_override, tag, timeout, rlimit)
            finally:
                extract._tls.no_await_try = False
            r2.other_errors = r2.other_errors or []
            return r2
    return r


def _run_unit(name: str, repo: str = '/repo', extra_args: List[str] = None, text_override: str = None,
              tag: str = '', timeout: int = 600, rlimit: Optional[int] = None) -> UnitResult:
    res = UnitResult(unit=name)
    t0 = time.time()
    try:
        u = extract.build_unit(name, repo, VERIF)
        text, linemap = u.render()
    except extract.Undecided as e:
        res.undecided = 'extract: %s' % e
        return res
    except (rustscan_error()) as e:
        res.undecided = 'extract: cannot scan source: %s' % e
        return res
    if text_override is not None:
        text = text_override(text, u, linemap)
    res.unit_obj, res.linemap, res.text = u, linemap, text
    work = os.environ.get('VERIF_WORK_DIR', os.path.join(VERIF, '.work'))
    os.makedirs(work, exist_ok=True)
    # one file per process and purpose: concurrent checks never read each other's half-written unit
    sub = os.path.join(work, 'p%d' % os.getpid())
    os.makedirs(sub, exist_ok=True)
    path = os.path.join(sub, name + (('.' + tag) if tag else '') + '.rs')
    open(path, 'w').write(text)
    latest = os.path.join(work, name + (('.' + tag) if tag else '') + '.rs')
    try:
        tmp = latest + '.tmp%d' % os.getpid()
        open(tmp, 'w').write(text)
        os.replace(tmp, latest)      # convenience copy for humans (atomic)
    except OSError:
        pass
    res.path = latest
    try:
        ensure_ext()
    except Exception as e:
        res.undecided = 'setup: %s' % e
        return res
    cmd = ['verus', path, '--crate-name', name, '--extern', 'bytes=' + os.path.join(EXT, 'libbytes.rlib'), '-L', EXT,
           '--multiple-errors', '50', '--output-json', '--time-expanded', '--error-format=json']
    if rlimit:
        cmd += ['--rlimit', str(rlimit)]
    if extra_args:
        cmd += extra_args
    res.cmd = ' '.join(cmd)
    try:
        p = subprocess.run(cmd, capture_output=True, text=True, timeout=timeout, cwd=sub)
    except subprocess.TimeoutExpired:
        res.undecided = 'verus timed out after %ds' % timeout
        return res
    res.wall_s = time.time() - t0
    lines = text.split('\n')
    out = None
    try:
        out = json.loads(p.stdout)
    except Exception:
        pass
    diags = []
    for ln in p.stderr.split('\n'):
        ln = ln.strip()
        if ln.startswith('{'):
            try:
                diags.append(json.loads(ln))
            except Exception:
                pass
        elif ln and not ln.startswith('warning') and 'verification results' not in ln:
            if re.search(r'panicked|internal error|error:', ln):
                res.other_errors.append(ln)
    for d in diags:
        if d.get('level') not in ('error',):
            continue
        msg = d.get('message', '')
        if any(re.search(r, msg) for r in IGNORE_MSG):
            continue
        if any(re.search(r, msg) for r in RESOURCE_MSG):
            res.undecided = 'solver resource limit: %s' % msg
            continue
        kind = None
        for rx, k in VERIF_MSG:
            if re.search(rx, msg):
                kind = k; break
        spans = d.get('spans', [])
        def in_my_file(sp):
            # a span inside a std macro (panic!, assert!, unreachable!) points into the macro definition:
            # follow the expansion chain back to the invocation in the generated file
            seen = 0
            while sp is not None and seen < 12:
                if os.path.basename(sp.get('file_name', '')) == os.path.basename(path):
                    return sp
                sp = (sp.get('expansion') or {}).get('span')
                seen += 1
            return None
        mine = []
        for sp0 in spans:
            sp1 = in_my_file(sp0)
            if sp1 is not None:
                if sp1 is not sp0:
                    sp1 = dict(sp1, is_primary=sp0.get('is_primary'), label=sp0.get('label'))
                mine.append(sp1)
        # a failed precondition of a vstd function (panic!, unwrap, index ..) has its primary span in vstd:
        # name the obligation by the call site in the generated file
        prim = next((s for s in mine if s.get('is_primary')), mine[0] if mine else None)
        spans = mine
        if kind is None or prim is None:
            res.other_errors.append(msg + (' @%d' % prim['line_start'] if prim else ''))
            continue
        line = prim['line_start']
        span_text = normalise(text_from_span(lines, prim))
        exit_text = ''
        fn_line = line
        for s in spans:
            if not s.get('is_primary'):
                lab = s.get('label') or ''
                if 'at this exit' in lab or 'at the end of the function body' in lab:
                    exit_text = normalise(text_from_span(lines, s))[:120]
                elif 'failed this invariant' in lab:
                    # an invariant / loop `ensures` that fails at a `break`: Verus points at the exit and labels the
                    # clause; name the obligation by the clause, keep the exit
                    exit_text = span_text[:120]
                    span_text = normalise(text_from_span(lines, s))
                    line = s['line_start']
        o = linemap[line - 1] if 0 < line <= len(linemap) else None
        if o is None:
            origin = 'tmpl'
        elif o[0] == 'real':
            origin = 'real %s:%d' % (o[1], o[2])
        elif o[0] == 'ins':
            origin = 'spec %s' % o[1]
        else:
            origin = 'tmpl'
        fn = fn_for_line(u, lines, line)
        if kind == 'inv-entry' and o is not None and o[0] == 'real':
            # Verus points at the loop header / iterator expression for a failing entry invariant
            pass
        f = Failure(name, fn, kind, msg, line, span_text, origin, exit_text, d.get('rendered', '')[:4000])
        f.obligation = '%s::%s::%s::%s' % (name, fn, kind, span_text[:160]) + ((' @exit ' + exit_text[:80]) if exit_text else '')
        f.col = prim.get('column_start', 0)
        res.failures.append(f)
    if out:
        vr = out.get('verification-results', {})
        res.verified = vr.get('verified', 0)
        res.errors = vr.get('errors', 0)
        smt = out.get('times-ms', {}).get('smt', {})
        res.smt_ms = smt.get('smt-run', 0) if isinstance(smt, dict) else 0
        for m in (smt.get('smt-run-module-times', []) if isinstance(smt, dict) else []):
            for fb in m.get('function-breakdown', []):
                res.fn_results[fb['function']] = {'success': fb.get('success'), 'time_ms': fb.get('time'), 'mode': fb.get('mode:')}
        if vr.get('encountered-vir-error'):
            res.other_errors.append('verus reported a VIR (unsupported construct / mode) error')
    else:
        res.other_errors.append('no JSON result from verus (exit %d): %s' % (p.returncode, p.stderr[-600:]))
    # de-duplicate identical obligations (Verus may repeat one per exit)
    seen = set()
    uniq = []
    for f in res.failures:
        if f.obligation not in seen:
            seen.add(f.obligation); uniq.append(f)
    res.failures = uniq
    if res.other_errors and not res.failures:
        res.undecided = res.undecided or ('verus could not process the unit: ' + '; '.join(res.other_errors[:3]))
    elif res.other_errors and res.failures:
        # a compile-type error next to verification errors: the unit as a whole is undecided
        hard = [e for e in res.other_errors if not re.search(r'verification results|aborting', e)]
        if hard:
            res.undecided = res.undecided or ('verus could not process the unit: ' + '; '.join(hard[:3]))
    if not res.failures and not res.undecided:
        if out and out.get('verification-results', {}).get('success'):
            res.ok = True
        else:
            res.undecided = 'verus did not report success and gave no classifiable error'
    return res


def rustscan_error():
    import rustscan
    return rustscan.LexError


def text_from_span(lines, s):
    ls, le = s['line_start'], s['line_end']
    if ls == le:
        return lines[ls - 1][s['column_start'] - 1:s['column_end'] - 1]
    parts = [lines[ls - 1][s['column_start'] - 1:]] + lines[ls:le - 1] + [lines[le - 1][:s['column_end'] - 1]]
    return ' '.join(parts)


if __name__ == '__main__':
    # VERIF_KEEP_HINTS=1: development mode, report failing proof hints instead of leaving them out
    r = (run_unit_once if os.environ.get('VERIF_KEEP_HINTS') else run_unit)(sys.argv[1], sys.argv[2] if len(sys.argv) > 2 else '/repo')
    print('ok' if r.ok else ('UNDECIDED ' + str(r.undecided) if r.undecided else 'FAIL'), r.verified, r.errors, '%.1fs' % r.wall_s)
    for f in r.failures:
        print(' -', f.obligation, '|', f.origin)
    for e in r.other_errors:
        print(' !', e)
    for h in r.dropped_hints:
        print(' ~ hint left out (no longer holds):', h)
