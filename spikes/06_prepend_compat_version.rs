use vstd::prelude::*;
use bytes::{Bytes};
use std::collections::VecDeque;
verus! {
global size_of usize == 8;
#[verifier::external_type_specification]
#[verifier::external_body]
pub struct ExBytes(Bytes);
pub uninterp spec fn b_view(b: &Bytes) -> Seq<u8>;
pub assume_specification[ <Bytes as Clone>::clone ](b: &Bytes) -> (r: Bytes)
    ensures r == *b;

pub struct ZmqMessage {
    frames: VecDeque<Bytes>,
}
impl View for ZmqMessage {
    type V = Seq<Bytes>;
    closed spec fn view(&self) -> Seq<Bytes> { self.frames@ }
}
impl ZmqMessage {
    pub fn push_front(&mut self, frame: Bytes)
        ensures final(self)@ == seq![frame] + old(self)@
    {
        self.frames.push_front(frame);
    }
    pub fn iter(&self) -> (r: std::collections::vec_deque::Iter<'_, Bytes>)
    {
        self.frames.iter()
    }
    pub fn prepend(&mut self, message: &ZmqMessage)
        ensures final(self)@ == message@ + old(self)@
    {
        for frame in message.iter().rev() {
            self.push_front(frame.clone());
        }
    }
}

const COMPATIBILITY_MATRIX: [u8; 121] = [
    // PAIR, PUB, SUB, REQ, REP, DEALER, ROUTER, PULL, PUSH, XPUB, XSUB
    1, 0, 0, 0, 0, 0, 0, 0, 0, 0, 0, // PAIR
    0, 0, 1, 0, 0, 0, 0, 0, 0, 0, 1, // PUB
    0, 1, 0, 0, 0, 0, 0, 0, 0, 1, 0, // SUB
    0, 0, 0, 0, 1, 0, 1, 0, 0, 0, 0, // REQ
    0, 0, 0, 1, 0, 1, 0, 0, 0, 0, 0, // REP
    0, 0, 0, 0, 1, 1, 1, 0, 0, 0, 0, // DEALER
    0, 0, 0, 1, 0, 1, 1, 0, 0, 0, 0, // ROUTER
    0, 0, 0, 0, 0, 0, 0, 0, 1, 0, 0, // PULL
    0, 0, 0, 0, 0, 0, 0, 1, 0, 0, 0, // PUSH
    0, 0, 1, 0, 0, 0, 0, 0, 0, 0, 1, // XPUB
    0, 1, 0, 0, 0, 0, 0, 0, 0, 1, 0, // XSUB
];

#[derive(Clone, Copy, PartialEq, Eq)]
#[repr(usize)]
pub enum SocketType {
    PAIR = 0,
    PUB = 1,
    SUB = 2,
    REQ = 3,
    REP = 4,
    DEALER = 5,
    ROUTER = 6,
    PULL = 7,
    PUSH = 8,
    XPUB = 9,
    XSUB = 10,
    STREAM = 11,
}

impl SocketType {
    pub fn compatible(&self, other: SocketType) -> bool {
        let row_index = *self as usize;
        let col_index = other as usize;
        COMPATIBILITY_MATRIX[row_index * 11 + col_index] != 0
    }
}

pub type ZmtpVersion = (u8, u8);
fn vers(peer: ZmtpVersion) -> bool {
    let my_version: ZmtpVersion = (3, 0);
    peer >= my_version
}

} // verus!
fn main() {}
