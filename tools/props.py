"""Per-property configuration: which units / functions / obligation kinds / Kani harnesses decide it."""

F = {'post', 'inv-entry', 'inv-end', 'assert'}                                    # functional obligations
S = {'pre', 'overflow', 'decreases', 'div0', 'shift', 'unreachable'}              # body-safety obligations
A = F | S

COMMON_TRUSTED = [
    'Verus 0.2026.09.13 + z3; Kani 0.68 + CBMC 6.11; rustc',
    'extractor tools/extract.py: drops D1-D5 only (listed per function under coverage.extraction[].drops)',
    "unsafe code inside `bytes`, std and the other dependencies (zeromq itself is built with -Dunsafe_code)",
]
COMMON_ASSUMPTIONS = [
    '64-bit target (usize == u64); Verus checks machine-integer overflow on every exec operation, integers in spec functions are mathematical',
    'assumed specifications of the `bytes` crate and of the std functions vstd does not cover (prelude/bytes_specs.rs, prelude/std_specs.rs): sequence semantics with the real panic conditions as preconditions',
    'Bytes::clone returns an equal value (second handle on the same immutable octets)',
]

KANI_DOMAIN = {
    'compat_table': 'all 12x12 socket type pairs',
    'mech_parse': 'all 2^160 values of the 20 octet mechanism field',
    'socktype_parse': 'all octet strings of length <= 8 (names are <= 6 octets)',
    'socktype_as_str': 'the twelve socket types',
    'greeting_ser': 'every version (u8,u8) x 3 mechanisms x as_server in {false,true}',
    'greeting_default': 'the single default greeting',
    'cmd_parse_nopanic': 'all command frame bodies of length <= N (see harness)',
    'encode_loop': 'messages of 1..=3 frames with bodies of 0..=2 symbolic octets',
    'ready_ser': 'READY for every socket type, identity absent or 1..=3 symbolic octets',
}

# (regex on "<unit>::<fn>", counterexample harness)
CEX_HARNESS = [
    (r'^codec::encode_frame$', 'cex_encode_frame'),
    (r'^codec::ZmqCodec::decode$', 'cex_decode'),
    (r'^handshake::SocketType::compatible$', 'compat_table'),
]

MSG_FNS = r'^ZmqMessage::|ZmqMessage as '

PROPS = {
    'C01': {
        'units': ['codec'],
        'scope': [
            ('codec', r'^encode_frame$', A, None),
            ('codec', r'^ZmqCodec::decode$', F, r'^(?!bm_reserved)'),
            ('codec', r'^ZmqCodec::new$', A, None),
            ('codec', r'ZmqGreeting as TryFrom', A, None),
            ('codec', r'ZmqMechanism as TryFrom', A, None),
            ('codec', r'ZmqCommand as TryFrom', A, None),
            ('codec', r'^ZmqMessage::push_back$|ZmqMessage as From<Bytes>', A, None),
            ('codec', r'^tmpl::lemma_(roundtrip|rfc_msg|be64)', A, None),
        ],
        'kani': {
            'quick': [('greeting_ser', 'complete'), ('greeting_default', 'complete'), ('mech_parse', 'complete')],
            'thorough': [('greeting_ser', 'complete'), ('greeting_default', 'complete'), ('mech_parse', 'complete')],
        },
        'assumptions': [],
        'not_covered': [],
    },
    'C02': {
        'units': ['codec'],
        'scope': [
            ('codec', r'^ZmqCodec::decode$', F, r'^(?!bm_reserved)'),
            ('codec', r'^ZmqCodec::new$', A, None),
            ('codec', r'^ZmqMessage::push_back$|ZmqMessage as From<Bytes>', A, None),
            ('codec', r'^tmpl::lemma_(seg|run)_', A, None),
        ],
        'kani': {},
        'assumptions': [],
        'not_covered': [],
    },
    'C04': {
        'units': ['handshake'],
        'scope': [
            ('handshake', r'^SocketType::compatible$', A, None),
            ('handshake', r'^SocketType::as_str$|SocketType as TryFrom', A, None),
            ('handshake', r'PeerIdentity as TryFrom<Bytes>|PeerIdentity as Default|^PeerIdentity::new$', A, None),
            ('handshake', r'ZmqGreeting as Default', A, None),
            ('handshake', r'^negotiate_version$', A, None),
            ('handshake', r'^greet_exchange$|^ready_exchange$|^util::peer_connected$', A, None),
            ('handshake', r'^ZmqCommand::ready$|^ZmqCommand::add_properties$|Bytes as From<PeerIdentity>', A, None),
            ('handshake', r'^FramedIo::into_parts$', A, None),
            ('handshake', r'^tmpl::lemma_(rfc_compatible|socktype|str_key)', A, None),
        ],
        'kani': {
            'quick': [('compat_table', 'complete'), ('socktype_parse', 'bounded'), ('socktype_as_str', 'complete'), ('mech_parse', 'complete')],
            'thorough': [('compat_table', 'complete'), ('socktype_parse', 'bounded'), ('socktype_as_str', 'complete'), ('mech_parse', 'complete')],
        },
        'assumptions': [
            'FramedRead::next may return any item (the peer controls it) and appends it to a ghost log; FramedWrite::send = feed + flush, appends to a ghost log on Ok only',
            'String is a well-behaved hash key and `str` borrows it by content; String::from(&str) copies the characters; HashMap::extend = union (later pairs win)',
            'generated identities (UUIDv4) are modelled as ONE abstract value fresh_identity(): nothing is claimed about their uniqueness',
            'the backend stand-in `dyn MultiPeerBackend` has exactly the three methods the handshake calls; its peer_connected REQUIRES handshake_completed(io, id)',
        ],
        'not_covered': [
            'that registration actually happens on the Ok path (the effect of Arc<dyn MultiPeerBackend>::peer_connected is behind a shared reference; only its precondition is an obligation); at-most-once and same-connection follow from FramedIo being moved',
            'uniqueness of generated identities; closing of a rejected connection (Rust ownership: FramedIo dropped on the ? path); reporting to caller / monitor (async closure in Socket::bind)',
        ],
    },
    'C03': {
        'units': ['codec', 'handshake'],
        'scope': [
            ('handshake', r'^SocketType::compatible$', S, None),
            ('handshake', r'PeerIdentity as TryFrom<Bytes>', S, None),
            ('handshake', r'^negotiate_version$', S, None),
            ('handshake', r'^greet_exchange$|^ready_exchange$|^util::peer_connected$', S, None),
            ('codec', r'^ZmqCodec::decode$', S, None),
            ('codec', r'^ZmqCodec::decode$', {'post'}, r'^bm_reserved'),
            ('codec', r'^ZmqCodec::decode$', {'inv-entry', 'inv-end'}, r'bm_reserved|wf\(\)'),
            ('codec', r'^ZmqCodec::new$', A, None),
            ('codec', r'ZmqGreeting as TryFrom', S, None),
            ('codec', r'^ZmqMessage::push_back$|ZmqMessage as From<Bytes>', S, None),
        ],
        'kani': {
            'quick': [('mech_parse', 'complete'), ('compat_table', 'complete'), ('socktype_parse', 'bounded')],
            'thorough': [('mech_parse', 'complete'), ('compat_table', 'complete'), ('socktype_parse', 'bounded')],
        },
        'assumptions': [],
        'not_covered': ['"other connections keep working"; panics inside spawned tasks; the PUB/XPUB subscription parser (message_received)'],
    },
}
