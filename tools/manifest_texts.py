HOOK_COMMITS = ['36a14d0']
NOTES = ('Technique family: contract-based deductive verification of the real code (see DESIGN.md). Exit 0 = all obligations of the property discharged '
         'on the text extracted from /repo on this run; exit 1 = a named obligation failed (VIOLATION line, replay file); exit 2 = undecided (lost anchor, '
         'unsupported construct, a trait-default assumption lost, solver limit) and is never reported as a violation. Twelve genuine defects were found and repaired by fix: commits '
         '(known_findings.json, DESIGN.md section 5).')

CHECKS = {
    'C01': {
        'text': 'Verus proves, on the real text: encode_frame equals the RFC 23 frame image (flags, 255/256 size boundary, 8 octet big-endian size, body) for every usize length and both MORE values; Encoder::encode writes exactly rfc_msg(frames) for every message of >= 1 frames; '
                'the decoder equals an RFC-written resumable decoder specification, and that specification parses rfc_msg(frames) back to exactly [frames] (lemma); the READY serialiser emits one command frame with an exact size field carrying every property once, and the READY parser builds exactly the map the RFC grammar reads; '
                'the greeting serialiser is proved octet for octet by a loop-free Kani harness over its full domain; every backend\'s socket_type() and the constructor that fixes it are proved to name the socket\'s own type (what READY carries); every ZmqMessage operation is proved against the frame-sequence view. '
                'Proof is the right level because the property quantifies over all messages and lengths, which no grid of tests covers.',
        'design_ref': 'DESIGN.md 4 (C01), 2, 3',
        'note': 'Assumed: specs of the bytes crate (cross-checked by bounded Kani bytes_spec_* harnesses in the thorough tier); an assumed model of std enumerate over a deque iterator (stand-in Iter/Enumerate); A-REGION-2 (the b"READY" slice-pattern match); String-by-octets and hash-key axioms. 64-bit target.',
        'technique': 'Verus contracts on extracted real functions vs RFC spec functions; Kani complete harness for the greeting',
    },
    'C02': {
        'text': 'Verus proves that each call of the real decode() performs exactly one step of the RFC stream decoder on (abstract state, pending bytes): Ok(None) loses no information, an item is returned exactly when the '
                'specification yields one, state and leftover bytes agree. Segmentation independence for every partition then follows by induction over the specification (lemmas in the same unit). The hand-over is under contract too: each handshake step reads exactly one item, FramedIo::into_parts is the identity, and the read half that gets registered is the one the handshake used.',
        'design_ref': 'DESIGN.md 4 (C02)',
        'note': 'Assumed: asynchronous-codec FramedRead appends reads to one buffer and calls decode repeatedly without dropping bytes; the hand-over of the framed reader is a move (Rust ownership).',
        'technique': 'Verus: resumability contract on decode (loop invariant against a recursive spec function) + inductive lemmas',
    },
    'C04': {
        'text': 'Verus proves, on the real text: compatible() equals the RFC socket-compatibility relation for every pair with no precondition (total, symmetric by lemma); the identity rule (empty -> generated, >255 -> error, else verbatim); '
                'negotiate_version accepts exactly versions >= 3.0; ready_exchange returns Ok exactly when the single item read is a READY whose Socket-Type names a compatible type and whose Identity is <= 255 octets, and yields the announced identity; '
                'util::peer_connected calls the backend only under the precondition that both exchanges succeeded on that very connection; the backends register the peer exactly once under that identity; each socket announces its own type. Name parsers (byte-string patterns) are discharged by Kani.',
        'design_ref': 'DESIGN.md 4 (C04)',
        'note': 'Assumed: framed read/write stand-ins with ghost logs; String hash-key axioms; generated identities are one abstract value (uniqueness not claimed). Not covered: that registration happens on the Ok path (effect behind Arc<dyn>), connection closing, monitor reporting. socktype_parse is bounded (length <= 8).',
        'technique': 'Verus contracts on extracted handshake functions (async skeletons) + Kani for name parsers and the 12x12 table',
    },
    'C07': {
        'text': 'Verus proves, on the real text of ReqSocket/RepSocket send+recv and ZmqMessage: REQ writes exactly [empty]+payload and accepts a reply iff it has >=2 frames with an empty first frame, returning the rest; REP returns exactly the frames after the first empty delimiter (never zero frames), stores the envelope up to and including it, and writes envelope+reply. '
                'All postconditions are over the whole frame sequence, so any payload content (including empty frames) is covered.',
        'design_ref': 'DESIGN.md 4 (C07)',
        'note': 'The delimiter-search loop is verified against an assumed model of std enumerate (stand-in iterator types); ZmqMessage::iter/prepend are stubs in the reqrep unit (verified in the message unit). Stand-ins for scc/SegQueue/FairQueue/Framed*; sequential scope (Arc as Box).',
        'technique': 'Verus contracts on async skeletons (await dropped) over Seq views of ZmqMessage and ghost wire logs',
    },
    'C08': {
        'text': 'Verus proves the REQ/REP state machines per call: out-of-turn REQ send / REP send return the message intact and change nothing; REQ recv without a request changes nothing; a successful REQ send marks exactly the peer written to; REP send writes to exactly the entry of the stored requester and to no other (table equal elsewhere); the marker / envelope survive an abandoned recv (await-point invariants).',
        'design_ref': 'DESIGN.md 4 (C08)',
        'note': 'Sequential scope: per-call contracts over an owned peer-table model; interleavings of concurrent clients are not enumerated. The monitor channel is a stand-in.',
        'technique': 'Verus state-machine contracts on extracted REQ/REP methods with a peer-table model (prophecy-style &mut entry)',
    },
    'C09': {
        'text': 'Verus proves ROUTER recv returns [identity of the queue key] + frames unmodified for the first message item and forgets exactly the peers whose connection failed; ROUTER send (>=2 frames) writes frames[1..] to exactly the table entry whose identity equals frame 0 and fails without touching any entry otherwise; registration stores write half, queue entry and rotation entry under the same identity.',
        'design_ref': 'DESIGN.md 4 (C09)',
        'note': 'Sequential scope (Arc as Box, shared borrows of interior-mutable data as &mut: D7). Identity provenance is proved in the handshake unit (also C04).',
        'technique': 'Verus contracts on ROUTER skeletons and GenericSocketBackend registration',
    },
    'C10': {
        'text': 'Verus proves send_round_robin (and REQ\'s own loop): with no live peer the message comes back intact and no log changes; otherwise exactly the first live peer of the rotation gets the whole message through send (= feed and flush), vanished identities in front of it are dropped, and the chosen peer goes to the back of the queue; a failed write removes that peer. PUSH/DEALER send are proved to be exactly this.',
        'design_ref': 'DESIGN.md 4 (C10)',
        'note': 'Assumed: SegQueue FIFO, send completes after flush. Sequential scope. Strict rotation over n sends is a corollary for a duplicate-free queue (not re-proved globally).',
        'technique': 'Verus loop invariant against a recursive first_live spec over the rotation queue',
    },
    'C14': {
        'text': 'Cancellation safety is put back as explicit obligations after dropping .await: at every former suspension point of REQ, REP, ROUTER, DEALER, PULL, SUB and XPUB recv Verus proves the protocol-state fields equal their entry values and every queue item consumed so far has been completely dealt with (skipped by design, or failed and forgotten), so a dropped future owns nothing; a send refused while a recv is still owed changes nothing.',
        'design_ref': 'DESIGN.md 4 (C14)',
        'note': 'Cancel-safety of FramedRead::next / scc get_async is assumed. FairQueue::poll_next itself is under contract in sequential scope (on Pending the current waker is registered; streams are put back unless ended; items carry the key of their stream); wake-ups from other threads are not modelled. proxy() itself (select! expansion) not covered.',
        'technique': 'Verus await-point invariants spliced before each former .await of the extracted recv functions',
    },
    'C05': {
        'text': 'Verus proves, on the real text and for every history of non-overlapping calls: (queue) FairQueue::poll_next returns an item only together with the key of the stream it was read from, that stream has then yielded exactly this one more item and is registered again under the same key, every other registered stream has yielded exactly what it had before (nothing is read and lost), and a stream leaves the queue only when it has ended or is removed by key; '
                'as a lemma over that contract, after any number of polls what was delivered for a peer, in delivery order, is exactly what that peer\'s stream yielded, in stream order - nothing twice, nothing missing, nothing reordered. '
                '(sockets) One recv of PULL, SUB, DEALER, ROUTER, REP or XPUB consumes queue items up to and including the first that is not a greeting or command: a message item is returned with exactly its frames (ROUTER: behind the identity of the connection it arrived on; REP: the frames after the envelope, or ONE error if the envelope rules are violated), a failed connection is one error or is skipped after forgetting that peer (ROUTER); as a lemma, the Ok results of successive recvs are exactly the message items of the queue in queue order. '
                '(connection) the decoder yields each complete message exactly once, whole, in wire order, whatever the segmentation, and never an incomplete one (C02\'s contracts). Proof is the level for these per-call facts and their inductive corollaries; the concurrent window of the property is NOT decided (see note).',
        'design_ref': 'DESIGN.md 10.2i',
        'note': 'SEQUENTIAL SCOPE ONLY: poll_next is verified as if the queue lock were held for the whole call. The property also quantifies over peers being added, woken and removed by other tasks while a stream is checked out of the queue (the lock is released around the inner poll): that part is outside what per-call contracts over owned data decide, and is listed under not_covered in the evidence. Assumed: Pin::as_mut().poll_next as an expression (Pending / one more item / end), FairQueue::next as "one poll_next that returned Ready" (futures), asynchronous-codec FramedRead calling decode repeatedly over one buffer.',
        'technique': 'Verus postconditions over per-stream ghost histories on the real FairQueue::poll_next and on every recv, plus inductive trace lemmas over those postconditions',
    },
    'C11': {
        'text': 'Verus proves, on the real text of PubSocket::send and XPubSocket::send: for every subscriber still registered afterwards, its subscription list is untouched and its connection\'s writer was handed the message exactly once if some subscription is a byte-prefix of the first frame (the empty subscription matches everything) and not at all otherwise - also when several subscriptions match; send reports an error only if a writer reported one that is neither an I/O error nor a full buffer of a single connection. '
                'The bookkeeping is proved on message_received of both sockets: a one-frame 0x01 message appends its topic, a one-frame 0x00 message removes exactly the first equal topic (nothing if there is none), anything else changes nothing, and only the sender\'s entry can change. XPubSocket::recv is proved to return the first message item the queue yields verbatim and to apply exactly that item to the sender\'s entry.',
        'design_ref': 'DESIGN.md 10.2f',
        'note': 'Sequential scope. The scc traversal is an assumed cursor model (visits every key once; entry changes are table changes); try_send through Pin is an assumed expression ("handed to the writer", drops at the high-water mark are C12); position(closure) in message_received is an assumed expression. Not covered: per-connection ordering of subscription processing against concurrent sends.',
        'technique': 'Verus contracts with a prophecy-chained cursor stand-in for the scc traversal; slice comparison proved through vstd slice specs',
    },
    'C13': {
        'text': 'Verus proves, on the real text of src/sub.rs, the history invariant "every registered peer has been told exactly the socket\'s current topic set" (RFC 29 counting of the SUBSCRIBE / CANCEL messages on its wire log: 1 for a topic in the set, 0 for any other, nothing left buffered): '
                'peer_connected sends the whole current set to the new connection before registering it and preserves the invariant; subscribe / unsubscribe change the set, announce a change of the set to EVERY registered peer whatever happens on the other connections (each peer\'s connection is attempted exactly once), and preserve the invariant whenever they report success; a new socket starts with the invariant, and a failed peer is forgotten - that peer only. '
                'Two genuine defects were found this way and repaired (fix: commits, known_findings.json): process_subs stopped at the first failing peer; subscribe / unsubscribe announced calls that did not change the set, so that counting peers and late joiners disagreed.',
        'design_ref': 'DESIGN.md 10.2g, 5 (F7, F8)',
        'note': 'Sequential scope: a peer connecting concurrently with a subscribe call is not decided. Assumed: scc cursor model, FramedWrite::send stand-in, String-key / UTF-8 axioms for the HashSet<String> (insert / remove verified against the vstd specs), the snapshot iteration (iter().map(closure).collect()) as an assumed expression, `.unwrap()` on the snapshot send as return-only-if-Ok (the panic of the accept task is not claimed absent).',
        'technique': 'Verus contracts + a ghost fold (RFC 29 counting) over per-connection wire logs; invariant preservation per call; prophecy-chained cursor stand-in for the scc traversal',
    },
    'C16': {
        'text': 'Verus proves, per call and for every fair-queue socket type (ROUTER, DEALER, PULL, REP, SUB, XPUB): a recv that reports a peer\'s failure has removed everything the socket holds for that connection - the table entry with the write half AND the read half queued in the fair queue - and has changed nothing for any other peer; so the same failure cannot be reported again and no later send is routed there. '
                'Sends: a failed write removes exactly that peer from table and rotation (round robin), a broken subscriber pipe removes exactly that subscriber and never fails the publish. REQ, which reads its peer directly, forgets a peer whose read failed, and its send loop (like the shared round robin) drops the identities of forgotten peers from the rotation and terminates instead of spinning on them. Four genuine defects were found this way and repaired (fix: commits): DEALER recv did not forget the failed peer at all; REP and SUB forgot the write half but left the read half queued, so recv reported the same dead connection on every call (20 of 20); REQ kept the peer and routed the next send to the dead connection.',
        'design_ref': 'DESIGN.md 10.2h, 5 (F9-F12)',
        'note': 'Sequential scope; "released" = no table entry and no queued read half left (Rust then drops both halves); Drop, codec-internal buffers, descriptor counts and liveness ("never hangs") are not modelled.',
        'technique': 'Verus postconditions over the owned peer-table / stream-map model on every recv and peer_disconnected',
    },
    'C03': {
        'text': 'Every index, slice, get_u8/u32/u64, split_to, advance, expect, arithmetic operation and recursion/loop measure in the byte-reachable synchronous code is a Verus obligation under no precondition but the representation invariant; '
                'allocation is bounded through a ghost counter on BytesMut::reserve; parsers Verus cannot read are covered by Kani (complete or bounded as labelled).',
        'design_ref': 'DESIGN.md 4 (C03)',
        'note': 'Covers decode, greeting/command/identity/socket-type parsers, the handshake decision code, the PUB/XPUB subscription-message parsers and the recv function of every socket type (what it does with the items decoded from a peer). Not covered: panics in other spawned-task code, "other connections keep working". Assumed specs of bytes carry the real panic conditions.',
        'technique': 'Verus panic-freedom / termination / allocation-bound obligations on extracted code; Kani for three parsers',
    },
}

NOT_APPLICABLE = {
    'C05': 'quantifies over arrival schedules and concurrent connect/disconnect; the mechanism (FairQueue::poll_next releasing a parking_lot lock around a checked-out stream, wakers firing on other threads) is outside what Verus (&mut model assumes no interference) or Kani (no threads, crashes on parking_lot, HashMap intractable) can express. Per-call facts that ARE proved, in sequential scope, and reported under C14/C02: poll_next labels an item with the key of the stream it came from, puts every checked-out stream back unless it ended, invents no key; the per-connection decoder yields each complete message exactly once, whole and in order',
    'C06': 'liveness / fairness over adversarial schedules; wake-ups go through &Waker (no state a per-call contract can see)',
    'C12': 'about back-pressure schedules and the Sink polling protocol on Pin<&mut Self> (poll_ready / start_send / poll_flush of the external FramedWrite, its high-water mark and buffer): no per-call contract within reach expresses "never waits" or the memory bound. Per-call facts that ARE proved, and reported under C11: a full buffer or an I/O error of one subscriber never makes the publish fail, every subscriber is handed a matching message exactly once and independently of the others (one try_send per subscriber per publish, whole message or nothing is an assumption on try_send)',
    'C15': 'futures::select! expansion and scheduling',
    'C16': 'quantifies over fault x schedule sequences and is about resource release (Drop, descriptors), neither expressible as a per-call contract. Per-call facts that ARE proved under C09/C10/C14: ROUTER/PULL/REP recv forget exactly the peer whose connection failed and touch no other entry, round-robin send removes a peer whose write failed, the fair queue drops a stream only when it has ended',
    'C17': 'OS listeners, runtime task termination, Drop',
    'C18': 'observable behaviour is the OS listener\'s and the accept task\'s; the three-line HashMap bookkeeping does not decide the statement',
    'C19': 'the accepted language is defined by two regex patterns and std IPv4/IPv6 parsers; no contracts for a regex engine within reach and Kani cannot execute it',
    'C20': 'per-connection task spawning and scheduling',
}
