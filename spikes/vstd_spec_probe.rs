use vstd::prelude::*;
use std::collections::{HashSet, HashMap, VecDeque};
verus! {
fn p1(a: usize, b: usize) -> (r: usize) ensures r == if a >= b { a - b } else { 0 } { a.saturating_sub(b) }
fn p2(a: u8) -> (r: usize) ensures r == a as usize { usize::from(a) }
fn p3(b: bool) -> (r: u8) ensures r == if b { 1u8 } else { 0u8 } { u8::from(b) }
fn p4(a: usize) -> (r: u64) ensures r == a as u64 { u64::try_from(a).expect("x") }
fn p5(a: usize) -> (r: u8) requires a <= 255 ensures r == a as u8 { u8::try_from(a).expect("x") }
fn p7(o: Option<u8>) -> (r: bool) ensures r == o.is_some() { o.is_some() }
fn p8(o: Option<u8>) -> (r: u8) ensures r == (if o is Some { o->Some_0 } else { 7u8 }) { o.unwrap_or(7) }
fn p9(a: usize, b: usize) -> (r: usize) ensures r == if a < b { a } else { b } { a.min(b) }
fn p10(a: usize, b: usize) -> (r: Option<usize>) ensures r == if a + b <= usize::MAX { Some((a + b) as usize) } else { None } { a.checked_add(b) }
fn p11(v: &mut Vec<u8>, i: usize) -> (r: u8) requires i < old(v)@.len() ensures r == old(v)@[i as int], final(v)@.len() == old(v)@.len() - 1 { v.swap_remove(i) }
fn p12(v: &mut Vec<u8>, i: usize, x: u8) requires i <= old(v)@.len() ensures final(v)@ == old(v)@.insert(i as int, x) { v.insert(i, x) }
fn p13(v: &mut VecDeque<u8>, x: u8) ensures final(v)@ == seq![x] + old(v)@ { v.push_front(x) }
fn p14(o: Option<u8>) -> (r: Result<u8, u8>) ensures r == (if o is Some { Ok::<u8,u8>(o->Some_0) } else { Err::<u8,u8>(3u8) }) { o.ok_or(3) }
fn p15(v: &Vec<u8>) -> (r: Option<&u8>) ensures v@.len() == 0 ==> r is None, v@.len() > 0 ==> r == Some(&v@[v@.len() - 1]) { v.last() }
}
fn main(){}
use vstd::prelude::*;
use std::collections::{HashSet, HashMap, VecDeque};
verus! {
fn q1(v: &mut VecDeque<u8>) -> (r: Option<u8>) ensures old(v)@.len() > 0 ==> r == Some(old(v)@.last()) && final(v)@ == old(v)@.drop_last(), old(v)@.len() == 0 ==> r is None { v.pop_back() }
fn q4(v: &mut Vec<u8>) ensures final(v)@.len() == 0 { v.clear() }
fn q5(v: &mut Vec<u8>, n: usize) ensures n <= old(v)@.len() ==> final(v)@ == old(v)@.subrange(0, n as int), n > old(v)@.len() ==> final(v)@ == old(v)@ { v.truncate(n) }
fn q6(v: &mut Vec<u8>) -> (r: Option<u8>) ensures old(v)@.len() > 0 ==> r == Some(old(v)@.last()) && final(v)@ == old(v)@.drop_last(), old(v)@.len() == 0 ==> r is None { v.pop() }
fn q7(v: &Vec<u8>) -> (r: Option<&u8>) ensures v@.len() > 0 ==> r == Some(&v@[0]), v@.len() == 0 ==> r is None { v.first() }
fn q8(o: &mut Option<u8>) -> (r: Option<u8>) ensures r == *old(o), *final(o) == None::<u8> { o.take() }
fn q10(v: &mut VecDeque<u8>) ensures final(v)@.len() == 0 { v.clear() }
fn q11(v: &mut Vec<u8>, s: &[u8]) ensures final(v)@ == old(v)@ + s@ { v.extend_from_slice(s) }
fn q12(a: usize, b: usize) -> (r: usize) ensures r == if a > b { a } else { b } { a.max(b) }
fn q13(v: &mut VecDeque<u8>, i: usize) -> (r: Option<u8>) ensures i < old(v)@.len() ==> r == Some(old(v)@[i as int]) && final(v)@ == old(v)@.remove(i as int) { v.remove(i) }
fn q14(m: &HashMap<u64, u8>, k: u64) -> (r: bool) ensures r == m@.contains_key(k) { broadcast use vstd::std_specs::hash::group_hash_axioms; m.contains_key(&k) }
}
fn main(){}
