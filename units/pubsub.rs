// Verus unit `pubsub`: the subscription-message parser of PUB and XPUB (peer-reachable octets: C03).
// The prefix filter / back-pressure / late-joiner properties (C11-C13) stay not applicable; what is proved here is
// that whatever a subscriber sends, `message_received` cannot panic, and that it does what the RFC says with a
// well-formed SUBSCRIBE / CANCEL frame.
#![feature(allocator_api)]
#![allow(unused_imports, dead_code, unused_variables, unused_mut, unused_parens)]
use vstd::prelude::*;
use bytes::{Buf, BufMut, Bytes, BytesMut};
use std::collections::vec_deque::{Iter, VecDeque};
use std::collections::HashMap;
use std::convert::{From, TryFrom, TryInto};
use std::pin::Pin;
use vstd::std_specs::iter::IteratorSpec;
verus! {
global size_of usize == 8;
//@@ include prelude/bytes_specs.rs
//@@ include prelude/std_specs.rs
//@@ include prelude/message_items.rs
//@@ include prelude/codec_types.rs
//@@ include prelude/core_types.rs
//@@ include prelude/socket_standins.rs

#[verifier::external_type_specification]
#[verifier::external_body]
#[verifier::accept_recursive_types(P)]
pub struct ExPin<P>(Pin<P>);
pub mod oneshot { pub struct Sender<T> { pub _t: core::marker::PhantomData<T> } }
//@ item src/lib.rs :: struct SocketOptions
//@ end

pub assume_specification<T, A: std::alloc::Allocator> [<Vec<T, A> as core::convert::From<std::collections::VecDeque<T, A>>>::from] (d: std::collections::VecDeque<T, A>) -> (r: Vec<T, A>)
    ensures r@ == d@;
pub assume_specification [<Bytes as core::default::Default>::default] () -> (r: Bytes)
    ensures b_view(&r) == Seq::<u8>::empty();
pub assume_specification<'a, T: Clone> [<Vec<T> as core::convert::From<&'a [T]>>::from] (s: &[T]) -> (r: Vec<T>)
    ensures r@ == s@;

impl ZmqMessage {
//@ item src/message.rs :: impl ZmqMessage / fn into_vec
//@ ret r
//@ spec
//@|        ensures r@ == self.fr(),
//@ end
}

// D5 (expression): `entry.subscriptions.iter().position(|s| s == &sub)` takes a closure.  Replaced by this stub:
// ASSUMED to return the index of the first subscription with the same octets, if any.
#[verifier::external_body]
fn assumed_position(subs: &Vec<Vec<u8>>, sub: &Vec<u8>) -> (r: Option<usize>)
    ensures
        r matches Some(i) ==> i < subs@.len() && topics_of(subs@)[i as int] == sub@ && forall|j: int| 0 <= j < i ==> topics_of(subs@)[j] != sub@,
        r is None ==> forall|j: int| 0 <= j < subs@.len() ==> topics_of(subs@)[j] != sub@,
{ unimplemented!() }

//@ item src/pub.rs :: struct Subscriber
//@ end
//@ item src/pub.rs :: struct PubSocketBackend
//@ end

/// RFC 29: a subscription message is ONE frame: 0x01 topic = SUBSCRIBE, 0x00 topic = CANCEL
pub open spec fn sub_frame(m: Message) -> Option<Seq<u8>> {
    if m is Message && m->Message_0.fr().len() == 1 && b_view(&m->Message_0.fr()[0]).len() >= 1 { Some(b_view(&m->Message_0.fr()[0])) } else { None }
}
pub open spec fn topics_of(s: Seq<Vec<u8>>) -> Seq<Seq<u8>> { s.map_values(|v: Vec<u8>| v@) }
pub broadcast proof fn lemma_map_remove(s: Seq<Vec<u8>>, i: int)
    requires 0 <= i < s.len(),
    ensures #[trigger] topics_of(s.remove(i)) =~= topics_of(s).remove(i),
{}
pub broadcast proof fn lemma_map_push(s: Seq<Vec<u8>>, x: Vec<u8>)
    ensures #[trigger] topics_of(s.push(x)) =~= topics_of(s).push(x@),
{}
/// `t1` is `t0` with the FIRST occurrence of `topic` removed (or `t0` itself when there is none)
pub open spec fn cancelled(t0: Seq<Seq<u8>>, t1: Seq<Seq<u8>>, topic: Seq<u8>) -> bool {
    if exists|i: int| 0 <= i < t0.len() && t0[i] == topic {
        exists|i: int| 0 <= i < t0.len() && #[trigger] t0[i] == topic && (forall|j: int| 0 <= j < i ==> t0[j] != topic) && t1 =~= t0.remove(i)
    } else {
        t1 =~= t0
    }
}
spec fn topics(s: Subscriber) -> Seq<Seq<u8>> { topics_of(s.subscriptions@) }

impl PubSocketBackend {
//@ item src/pub.rs :: impl PubSocketBackend / fn message_received
//@ name PubSocketBackend::message_received
//@ receiver-mut
//@ subst-re "(\w+)\.subscriptions\.iter\(\)\.position\(\|s\| s == &sub\)"
//@|    assumed_position(&\1.subscriptions, &sub)
//@ spec
//@|        ensures
//@|            // only the sender's own entry can change, and only its subscription list
//@|            forall|q: PeerIdentity| q != *peer_id && old(self).subscribers@.contains_key(q) ==> final(self).subscribers@.contains_key(q) && #[trigger] final(self).subscribers@[q] == old(self).subscribers@[q],
//@|            final(self).subscribers@.dom() =~= old(self).subscribers@.dom(),
//@|            // anything that is not a one-frame 0x01 / 0x00 message changes nothing
//@|            (sub_frame(message) is None || sub_frame(message)->Some_0[0] > 1) ==> final(self).subscribers@ == old(self).subscribers@,
//@|            // SUBSCRIBE appends the topic
//@|            (sub_frame(message) is Some && sub_frame(message)->Some_0[0] == 1 && old(self).subscribers@.contains_key(*peer_id)) ==>
//@|                topics(final(self).subscribers@[*peer_id]) =~= topics(old(self).subscribers@[*peer_id]).push(sub_frame(message)->Some_0.subrange(1, sub_frame(message)->Some_0.len() as int)),
//@|            // CANCEL removes exactly one subscription, the first equal one; an unknown topic changes nothing
//@|            (sub_frame(message) is Some && sub_frame(message)->Some_0[0] == 0 && old(self).subscribers@.contains_key(*peer_id)) ==>
//@|                cancelled(topics(old(self).subscribers@[*peer_id]), topics(final(self).subscribers@[*peer_id]), sub_frame(message)->Some_0.subrange(1, sub_frame(message)->Some_0.len() as int)),
//@ hint start
//@|        broadcast use lemma_map_remove, lemma_map_push;
//@ end
}

// ---- XPUB: the same parser (src/xpub.rs) ----
//@ item src/xpub.rs :: struct XPubSubscriber
//@ end
//@ item src/xpub.rs :: struct XPubSocketBackend
//@ end
spec fn xtopics(s: XPubSubscriber) -> Seq<Seq<u8>> { topics_of(s.subscriptions@) }
impl XPubSocketBackend {
//@ item src/xpub.rs :: impl XPubSocketBackend / fn message_received
//@ name XPubSocketBackend::message_received
//@ receiver-mut
//@ subst-re "(\w+)\.subscriptions\.iter\(\)\.position\(\|s\| s == &sub\)"
//@|    assumed_position(&\1.subscriptions, &sub)
//@ spec
//@|        ensures
//@|            forall|q: PeerIdentity| q != *peer_id && old(self).subscribers@.contains_key(q) ==> final(self).subscribers@.contains_key(q) && #[trigger] final(self).subscribers@[q] == old(self).subscribers@[q],
//@|            final(self).subscribers@.dom() =~= old(self).subscribers@.dom(),
//@|            (sub_frame(message) is None || sub_frame(message)->Some_0[0] > 1) ==> final(self).subscribers@ == old(self).subscribers@,
//@|            (sub_frame(message) is Some && sub_frame(message)->Some_0[0] == 1 && old(self).subscribers@.contains_key(*peer_id)) ==>
//@|                xtopics(final(self).subscribers@[*peer_id]) =~= xtopics(old(self).subscribers@[*peer_id]).push(sub_frame(message)->Some_0.subrange(1, sub_frame(message)->Some_0.len() as int)),
//@|            (sub_frame(message) is Some && sub_frame(message)->Some_0[0] == 0 && old(self).subscribers@.contains_key(*peer_id)) ==>
//@|                cancelled(xtopics(old(self).subscribers@[*peer_id]), xtopics(final(self).subscribers@[*peer_id]), sub_frame(message)->Some_0.subrange(1, sub_frame(message)->Some_0.len() as int)),
//@ hint start
//@|        broadcast use lemma_map_remove, lemma_map_push;
//@ end
}

// ---- what a SUB socket sends (src/sub.rs): RFC 29 SUBSCRIBE / CANCEL frame = one octet 0x01 / 0x00 + topic ----
//@ item src/sub.rs :: enum SubBackendMsgType
//@ end
impl vstd::std_specs::convert::FromSpecImpl<Bytes> for ZmqMessage {
    open spec fn obeys_from_spec() -> bool { true }
    closed spec fn from_spec(v: Bytes) -> Self { msg_of_one(v) }
}
/// the one-frame message made of this frame
pub uninterp spec fn msg_of_one(b: Bytes) -> ZmqMessage;
pub broadcast axiom fn axiom_msg_of_one(b: Bytes)
    ensures (#[trigger] msg_of_one(b)).fr() == seq![b];
// `impl From<Bytes> for ZmqMessage` is verified in units message / codec (`r.fr() == seq![b]`); here only its contract
//@ item src/message.rs :: impl From<Bytes> for ZmqMessage
//@ fn from
//@ attr
//@|    #[verifier::external_body]
//@ ret r
//@ spec
//@|        ensures r == msg_of_one(b),
//@ end
pub struct SubSocketBackendNs { _p: u8 }
impl SubSocketBackendNs {
//@ item src/sub.rs :: impl SubSocketBackend / fn create_subs_message
//@ name SubSocketBackend::create_subs_message
//@ ret r
//@ spec
//@|        requires str_bytes(subscription).len() < 0x7fff_ffff_ffff_ffff,
//@|        ensures
//@|            r.fr().len() == 1,
//@|            b_view(&r.fr()[0]) == seq![if msg_type is SUBSCRIBE { 1u8 } else { 0u8 }] + str_bytes(subscription),
//@ hint start
//@|        broadcast use axiom_msg_of_one;
//@ end
}

} // verus!
pub struct Uuid([u8; 16]);
impl Uuid {
    pub fn new_v4() -> Self { Uuid([0; 16]) }
    pub fn as_bytes(&self) -> &[u8; 16] { &self.0 }
}
fn main() {}
