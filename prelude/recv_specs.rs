// ---- what a fair-queue based recv does with the items the queue yields (shared by units routing and pubsub) ----
/// a queue item the receivers ignore by design: a greeting or a command
pub open spec fn skipped_item(it: Option<(PeerIdentity, CodecResult<Message>)>) -> bool {
    it is Some && it->Some_0.1 is Ok && !(it->Some_0.1->Ok_0 is Message)
}
pub open spec fn failed_item(it: Option<(PeerIdentity, CodecResult<Message>)>) -> bool {
    it is Some && it->Some_0.1 is Err
}
pub open spec fn message_item(it: Option<(PeerIdentity, CodecResult<Message>)>) -> bool {
    it is Some && it->Some_0.1 is Ok && it->Some_0.1->Ok_0 is Message
}
/// DEALER / PULL recv: skip non-message items, return the first message unmodified, or fail on a failed
/// connection / an exhausted queue
pub open spec fn plain_received(l0: Seq<Option<(PeerIdentity, CodecResult<Message>)>>, l1: Seq<Option<(PeerIdentity, CodecResult<Message>)>>, r: ZmqResult<ZmqMessage>) -> bool {
    let last = l1.last();
    &&& l1.len() > l0.len() && l1.subrange(0, l0.len() as int) =~= l0
    &&& forall|i: int| l0.len() <= i < l1.len() - 1 ==> skipped_item(#[trigger] l1[i])
    &&& !skipped_item(last)
    &&& r is Ok <==> message_item(last)
    // the same frames: a ZmqMessage IS its frame sequence (returning a clone is returning the message)
    &&& r is Ok ==> r->Ok_0.fr() == last->Some_0.1->Ok_0->Message_0.fr()
}

