// Verus unit `pubsub`: the subscription-message parser of PUB and XPUB (peer-reachable octets: C03).
// The prefix filter / back-pressure / late-joiner properties (C11-C13) stay not applicable; what is proved here is
// that whatever a subscriber sends, `message_received` cannot panic, and that it does what the RFC says with a
// well-formed SUBSCRIBE / CANCEL frame.
#![feature(allocator_api)]
#![allow(unused_imports, dead_code, unused_variables, unused_mut, unused_parens)]
use vstd::prelude::*;
use bytes::{Buf, BufMut, Bytes, BytesMut};
use std::collections::vec_deque::{Iter, VecDeque};
use std::collections::HashMap;
use std::convert::{From, TryFrom, TryInto};
use std::pin::Pin;
use std::io::ErrorKind;
use vstd::std_specs::iter::IteratorSpec;
verus! {
global size_of usize == 8;
//@@ include prelude/bytes_specs.rs
//@@ include prelude/std_specs.rs
//@@ include prelude/message_items.rs
//@@ include prelude/codec_types.rs
//@@ include prelude/core_types.rs
//@@ include prelude/socket_standins.rs
//@@ include prelude/recv_specs.rs

#[verifier::external_type_specification]
#[verifier::external_body]
#[verifier::accept_recursive_types(P)]
pub struct ExPin<P>(Pin<P>);
pub mod oneshot { pub struct Sender<T> { pub _t: core::marker::PhantomData<T> } }
//@ item src/lib.rs :: enum SocketType
//@ end
//@ item src/lib.rs :: struct SocketOptions
//@ end

pub assume_specification<T, A: std::alloc::Allocator> [<Vec<T, A> as core::convert::From<std::collections::VecDeque<T, A>>>::from] (d: std::collections::VecDeque<T, A>) -> (r: Vec<T, A>)
    ensures r@ == d@;
pub assume_specification [<Bytes as core::default::Default>::default] () -> (r: Bytes)
    ensures b_view(&r) == Seq::<u8>::empty();
pub assume_specification<'a, T: Clone> [<Vec<T> as core::convert::From<&'a [T]>>::from] (s: &[T]) -> (r: Vec<T>)
    ensures r@ == s@;

impl ZmqMessage {
//@ item src/message.rs :: impl ZmqMessage / fn into_vec
//@ ret r
//@ spec
//@|        ensures r@ == self.fr(),
//@ end
}

// D5 (expression): `entry.subscriptions.iter().position(|s| s == &sub)` takes a closure.  Replaced by this stub:
// ASSUMED to return the index of the first subscription with the same octets, if any.
#[verifier::external_body]
fn assumed_position(subs: &Vec<Vec<u8>>, sub: &Vec<u8>) -> (r: Option<usize>)
    ensures
        r matches Some(i) ==> i < subs@.len() && topics_of(subs@)[i as int] == sub@ && forall|j: int| 0 <= j < i ==> topics_of(subs@)[j] != sub@,
        r is None ==> forall|j: int| 0 <= j < subs@.len() ==> topics_of(subs@)[j] != sub@,
{ unimplemented!() }

//@ item src/pub.rs :: struct Subscriber
//@ end
//@ item src/pub.rs :: struct PubSocketBackend
//@ end

/// RFC 29: a subscription message is ONE frame: 0x01 topic = SUBSCRIBE, 0x00 topic = CANCEL
pub open spec fn sub_frame(m: Message) -> Option<Seq<u8>> {
    if m is Message && m->Message_0.fr().len() == 1 && b_view(&m->Message_0.fr()[0]).len() >= 1 { Some(b_view(&m->Message_0.fr()[0])) } else { None }
}
pub open spec fn topics_of(s: Seq<Vec<u8>>) -> Seq<Seq<u8>> { s.map_values(|v: Vec<u8>| v@) }
pub broadcast proof fn lemma_map_remove(s: Seq<Vec<u8>>, i: int)
    requires 0 <= i < s.len(),
    ensures #[trigger] topics_of(s.remove(i)) =~= topics_of(s).remove(i),
{}
pub broadcast proof fn lemma_map_push(s: Seq<Vec<u8>>, x: Vec<u8>)
    ensures #[trigger] topics_of(s.push(x)) =~= topics_of(s).push(x@),
{}
/// RFC 29 counts subscriptions: SUBSCRIBE adds one occurrence of the topic, CANCEL takes one occurrence away (none if
/// there is none).  Stated over the multiset of topics: the order the socket keeps them in is not observable (the
/// filter asks whether SOME subscription is a prefix).
pub open spec fn subscribed(t0: Seq<Seq<u8>>, t1: Seq<Seq<u8>>, topic: Seq<u8>) -> bool {
    t1.to_multiset() =~= t0.to_multiset().insert(topic)
}
pub open spec fn cancelled(t0: Seq<Seq<u8>>, t1: Seq<Seq<u8>>, topic: Seq<u8>) -> bool {
    t1.to_multiset() =~= t0.to_multiset().remove(topic)
}
pub proof fn lemma_topics_push(t0: Seq<Seq<u8>>, x: Seq<u8>)
    ensures subscribed(t0, t0.push(x), x),
{
    broadcast use vstd::seq_lib::group_to_multiset_ensures;
}
pub proof fn lemma_topics_remove(t0: Seq<Seq<u8>>, i: int)
    requires 0 <= i < t0.len(),
    ensures cancelled(t0, t0.remove(i), t0[i]),
{
    broadcast use vstd::seq_lib::group_to_multiset_ensures;
}
pub proof fn lemma_topics_absent(t0: Seq<Seq<u8>>, x: Seq<u8>)
    requires forall|j: int| 0 <= j < t0.len() ==> t0[j] != x,
    ensures cancelled(t0, t0, x),
{
    broadcast use vstd::seq_lib::group_to_multiset_ensures;
    t0.to_multiset_ensures();
    assert(!t0.contains(x));
    assert(t0.to_multiset().count(x) == 0);
}
spec fn topics(s: Subscriber) -> Seq<Seq<u8>> { topics_of(s.subscriptions@) }

impl PubSocketBackend {
//@ item src/pub.rs :: impl PubSocketBackend / fn message_received
//@ name PubSocketBackend::message_received
//@ receiver-mut
// the multiset lemmas in reach cover Vec::push and Vec::remove(index); another way of updating the list is undecided
//@ shapes "subscriptions.push("
//@ shapes "subscriptions.remove("
//@ subst-re "(\w+)\.subscriptions\.iter\(\)\.position\(\|s\| s == &sub\)"
//@|    assumed_position(&\1.subscriptions, &sub)
//@ spec
//@|        ensures
//@|            // only the sender's own entry can change, and only its subscription list
//@|            forall|q: PeerIdentity| q != *peer_id && old(self).subscribers@.contains_key(q) ==> final(self).subscribers@.contains_key(q) && #[trigger] final(self).subscribers@[q] == old(self).subscribers@[q],
//@|            final(self).subscribers@.dom() =~= old(self).subscribers@.dom(),
//@|            // anything that is not a one-frame 0x01 / 0x00 message changes nothing
//@|            (sub_frame(message) is None || sub_frame(message)->Some_0[0] > 1) ==> final(self).subscribers@ == old(self).subscribers@,
//@|            // SUBSCRIBE adds one occurrence of the topic
//@|            (sub_frame(message) is Some && sub_frame(message)->Some_0[0] == 1 && old(self).subscribers@.contains_key(*peer_id)) ==>
//@|                subscribed(topics(old(self).subscribers@[*peer_id]), topics(final(self).subscribers@[*peer_id]), sub_frame(message)->Some_0.subrange(1, sub_frame(message)->Some_0.len() as int)),
//@|            // CANCEL takes one occurrence of the topic away; an unknown topic changes nothing
//@|            (sub_frame(message) is Some && sub_frame(message)->Some_0[0] == 0 && old(self).subscribers@.contains_key(*peer_id)) ==>
//@|                cancelled(topics(old(self).subscribers@[*peer_id]), topics(final(self).subscribers@[*peer_id]), sub_frame(message)->Some_0.subrange(1, sub_frame(message)->Some_0.len() as int)),
//@ hint start
//@|        broadcast use lemma_map_remove, lemma_map_push;
//@|        broadcast use vstd::seq_lib::group_to_multiset_ensures;
//@ end
}

// ---- XPUB: the same parser (src/xpub.rs) ----
//@ item src/xpub.rs :: struct XPubSubscriber
//@ end
//@ item src/xpub.rs :: struct XPubSocketBackend
//@ end
spec fn xtopics(s: XPubSubscriber) -> Seq<Seq<u8>> { topics_of(s.subscriptions@) }
/// what processing one item from subscriber `p` does to the XPUB subscriber table (RFC 29 bookkeeping)
spec fn xsub_applied(t0: Map<PeerIdentity, XPubSubscriber>, t1: Map<PeerIdentity, XPubSubscriber>, p: PeerIdentity, message: Message) -> bool {
    // only the sender's own entry can change
    &&& forall|q: PeerIdentity| q != p && t0.contains_key(q) ==> t1.contains_key(q) && #[trigger] t1[q] == t0[q]
    &&& t1.dom() =~= t0.dom()
    // anything that is not a one-frame 0x01 / 0x00 message changes nothing
    &&& (sub_frame(message) is None || sub_frame(message)->Some_0[0] > 1) ==> t1 == t0
    // SUBSCRIBE adds one occurrence of the topic
    &&& (sub_frame(message) is Some && sub_frame(message)->Some_0[0] == 1 && t0.contains_key(p)) ==>
            subscribed(xtopics(t0[p]), xtopics(t1[p]), sub_frame(message)->Some_0.subrange(1, sub_frame(message)->Some_0.len() as int))
    // CANCEL takes one occurrence away; an unknown topic changes nothing
    &&& (sub_frame(message) is Some && sub_frame(message)->Some_0[0] == 0 && t0.contains_key(p)) ==>
            cancelled(xtopics(t0[p]), xtopics(t1[p]), sub_frame(message)->Some_0.subrange(1, sub_frame(message)->Some_0.len() as int))
}
impl XPubSocketBackend {
//@ item src/xpub.rs :: impl XPubSocketBackend / fn message_received
//@ name XPubSocketBackend::message_received
//@ receiver-mut
// the multiset lemmas in reach cover Vec::push and Vec::remove(index); another way of updating the list is undecided
//@ shapes "subscriptions.push("
//@ shapes "subscriptions.remove("
//@ subst-re "(\w+)\.subscriptions\.iter\(\)\.position\(\|s\| s == &sub\)"
//@|    assumed_position(&\1.subscriptions, &sub)
//@ spec
//@|        ensures xsub_applied(old(self).subscribers@, final(self).subscribers@, *peer_id, message),
//@|            final(self).fair_queue_inner == old(self).fair_queue_inner,
//@ hint start
//@|        broadcast use lemma_map_remove, lemma_map_push;
//@|        broadcast use vstd::seq_lib::group_to_multiset_ensures;
//@ end
}

// ---- what a SUB socket sends (src/sub.rs): RFC 29 SUBSCRIBE / CANCEL frame = one octet 0x01 / 0x00 + topic ----
//@ item src/sub.rs :: enum SubBackendMsgType
//@ end
impl vstd::std_specs::convert::FromSpecImpl<Bytes> for ZmqMessage {
    open spec fn obeys_from_spec() -> bool { true }
    closed spec fn from_spec(v: Bytes) -> Self { msg_of_one(v) }
}
/// the one-frame message made of this frame
pub uninterp spec fn msg_of_one(b: Bytes) -> ZmqMessage;
pub broadcast axiom fn axiom_msg_of_one(b: Bytes)
    ensures (#[trigger] msg_of_one(b)).fr() == seq![b];
// `impl From<Bytes> for ZmqMessage` is verified in units message / codec (`r.fr() == seq![b]`); here only its contract
//@ item src/message.rs :: impl From<Bytes> for ZmqMessage
//@ fn from
//@ attr
//@|    #[verifier::external_body]
//@ ret r
//@ spec
//@|        ensures r == msg_of_one(b),
//@ end
pub struct SubSocketBackendNs { _p: u8 }
impl SubSocketBackendNs {
//@ item src/sub.rs :: impl SubSocketBackend / fn create_subs_message
//@ name SubSocketBackend::create_subs_message
//@ ret r
//@ spec
//@|        requires str_bytes(subscription).len() < 0x7fff_ffff_ffff_ffff,
//@|        ensures
//@|            r.fr().len() == 1,
//@|            b_view(&r.fr()[0]) == seq![if msg_type is SUBSCRIBE { 1u8 } else { 0u8 }] + str_bytes(subscription),
//@ hint start
//@|        broadcast use axiom_msg_of_one;
//@ end
}

// =================================================================================
// C11: PUB / XPUB `send` — a subscriber is handed the message iff one of its subscriptions is a prefix of the first
// frame, and then exactly once.  The scc traversal is the cursor stand-in of prelude/socket_standins.rs.
// =================================================================================
/// what the socket has handed to this connection's writer, in order (each `try_send` call, accepted or dropped:
/// dropping at the high-water mark is C12's subject, not this one)
pub uninterp spec fn pq_tried(q: Pin<Box<ZmqFramedWrite>>) -> Seq<Message>;
/// D5 (expression): `subscriber.send_queue.as_mut().try_send(item)` goes through `Pin<&mut _>` and the `TrySend`
/// trait of src/codec/mod.rs (poll_ready / start_send / poll_flush on the external FramedWrite).  ASSUMED: one call
/// presents exactly this item to exactly this writer, whatever the result.
#[verifier::external_body]
fn assumed_pinned_try_send(q: &mut Pin<Box<ZmqFramedWrite>>, item: Message) -> (r: ZmqResult<()>)
    ensures pq_tried(*final(q)) == pq_tried(*old(q)).push(item),
{ unimplemented!() }

/// the only errors `send` may report: not an I/O error of one connection, not a full buffer of one connection
pub open spec fn fatal_for_publish(e: ZmqError) -> bool {
    !(e is Codec && e->Codec_0 is Io) && !(e is BufferFull)
}
pub open spec fn is_prefix(p: Seq<u8>, s: Seq<u8>) -> bool { p.len() <= s.len() && p =~= s.subrange(0, p.len() as int) }
/// RFC 29: the message matches the subscriber iff SOME subscription is a prefix of its first frame
pub open spec fn matches_any(subs: Seq<Seq<u8>>, first: Seq<u8>) -> bool {
    exists|j: int| 0 <= j < subs.len() && is_prefix(#[trigger] subs[j], first)
}
/// `l1` is `l0` plus exactly one more item: a message with the frames of `m` (the code hands over a clone)
pub open spec fn handed_one(l0: Seq<Message>, l1: Seq<Message>, m: ZmqMessage) -> bool {
    l1.len() == l0.len() + 1 && l1.drop_last() == l0 && l1.last() is Message && l1.last()->Message_0.fr() == m.fr()
}
pub open spec fn first_frame(m: ZmqMessage) -> Seq<u8> { b_view(&m.fr()[0]) }
/// one subscriber before / after a `send(m)`: subscriptions untouched, and the writer was handed `m` exactly once
/// if a subscription matches, not at all otherwise
spec fn delivered_iff(s0: Subscriber, s1: Subscriber, m: ZmqMessage) -> bool {
    &&& s1.subscriptions == s0.subscriptions
    &&& if matches_any(topics(s0), first_frame(m)) { handed_one(pq_tried(s0.send_queue), pq_tried(s1.send_queue), m) } else { pq_tried(s1.send_queue) == pq_tried(s0.send_queue) }
}

impl PubSocketBackend {
// C01: the READY a socket emits names ITS OWN type (util::peer_connected asks the backend)
//@ item src/pub.rs :: impl SocketBackend for PubSocketBackend / fn socket_type
//@ name PubSocketBackend::socket_type
//@ inherent
//@ ret r
//@ spec
//@|        ensures r is PUB,
//@ end
    // stand-in for `SocketBackend::monitor(&self) -> &Mutex<..>` (shared borrow of interior-mutable data -> &mut, D7)
    fn monitor(&mut self) -> (r: &mut Mutex<Option<mpsc::Sender<SocketEvent>>>)
        ensures *r == old(self).socket_monitor, final(self).socket_monitor == *final(r),
            final(self).subscribers == old(self).subscribers, final(self).socket_options == old(self).socket_options,
    { &mut self.socket_monitor }
//@ item src/pub.rs :: impl MultiPeerBackend for PubSocketBackend / fn peer_disconnected
//@ name PubSocketBackend::peer_disconnected
//@ inherent
//@ receiver-mut
//@ spec
//@|        ensures final(self).subscribers@ == old(self).subscribers@.remove(*peer_id),
//@ end
}
//@ item src/pub.rs :: struct PubSocket
//@ end
impl PubSocket {
//@ item src/pub.rs :: impl SocketSend for PubSocket / fn send
//@ name PubSocket::send
//@ inherent
//@ subst-re "subscriber\s*\.send_queue\s*\.as_mut\(\)\s*\.try_send\("
//@|    assumed_pinned_try_send(&mut subscriber.send_queue,
//@ ret r
//@ spec
//@|        requires message.fr().len() >= 1,
//@|        ensures
//@|            // every subscriber that is still registered afterwards was registered before and got the message iff
//@|            // one of its subscriptions is a prefix of the first frame - exactly once, even if several match
//@|            r is Ok ==> forall|k: PeerIdentity| #[trigger] final(self).backend.subscribers@.contains_key(k) ==>
//@|                old(self).backend.subscribers@.contains_key(k)
//@|                && delivered_iff(old(self).backend.subscribers@[k], final(self).backend.subscribers@[k], message),
//@|            // a dead (I/O error) or slow (buffer full) subscriber never makes the publish fail for the others
//@|            r is Err ==> fatal_for_publish(r->Err_0),
//@ hint start
//@|        let ghost t0 = self.backend.subscribers@;
//@|        let ghost first = first_frame(message);
//@ hint before "while let Some(mut subscriber) = iter"
//@|        // the table as the traversal will leave it (prophecy of the borrow the entries hold)
//@|        let ghost tfv = if iter is Some { final(iter->Some_0.map)@ } else { t0 };
//@ loop 1
//@|            invariant
//@|                iter matches Some(e) ==> e.wf() && final(e.map)@ == tfv && e.map@.dom() =~= t0.dom()
//@|                    && (forall|j: int| e.idx@ <= j < e.order@.len() ==> e.map@[e.order@[j]] == t0[e.order@[j]])
//@|                    && (forall|j: int| 0 <= j < e.idx@ ==> delivered_iff(t0[e.order@[j]], #[trigger] e.map@[e.order@[j]], message)),
//@|                iter is None ==> tfv.dom() =~= t0.dom() && (forall|k: PeerIdentity| t0.contains_key(k) ==> delivered_iff(t0[k], #[trigger] tfv[k], message)),
//@|                message.fr().len() >= 1, first == first_frame(message),
//@|            ensures
//@|                iter is None,
//@|            decreases (if iter is Some { iter->Some_0.order@.len() - iter->Some_0.idx@ } else { 0 })
//@ loopbody 1
//@|            let ghost s0 = subscriber.val();
//@|            let ghost e0 = subscriber;
//@|            proof { assert(e0.order@.contains(e0.k())); }
//@ loop 2 it
//@|                invariant_except_break
//@|                    forall|j: int| 0 <= j < it.index() ==> !is_prefix(#[trigger] topics(s0)[j], first),
//@|                    subscriber.val() == s0,
//@|                invariant
//@|                    subscriber.map@ =~= e0.map@.insert(e0.k(), subscriber.val()),
//@|                    e0.map@.contains_key(e0.k()),
//@|                    it.seq() =~= s0.subscriptions@.as_ref(),
//@|                    0 <= it.index() <= s0.subscriptions@.len(),
//@|                    e0.wf(), s0 == e0.val(),
//@|                    subscriber.wf(), subscriber.order == e0.order, subscriber.idx == e0.idx,
//@|                    final(subscriber.map)@ == tfv,
//@|                    message.fr().len() >= 1, first == first_frame(message),
//@|                ensures
//@|                    delivered_iff(s0, subscriber.val(), message),
//@ loopbody 2
//@|                proof {
//@|                    assert(it.seq()[it.index() as int] == sub_filter);
//@|                    assert(sub_filter@ == topics(s0)[it.index() as int]);
//@|                }
//@ hint before "let res = subscriber"
//@|                    proof {
//@|                        assert(sub_filter@ =~= first.subrange(0, sub_filter@.len() as int));
//@|                        assert(is_prefix(topics(s0)[it.index() as int], first));
//@|                    }
//@ hint? before "break;"
//@|                    proof {
//@|                        assert(subscriber.val().subscriptions == s0.subscriptions);
//@|                        assert(matches_any(topics(s0), first));
//@|                        assert(pq_tried(subscriber.val().send_queue).len() == pq_tried(s0.send_queue).len() + 1);
//@|                        assert(pq_tried(subscriber.val().send_queue).drop_last() =~= pq_tried(s0.send_queue));
//@|                        assert(handed_one(pq_tried(s0.send_queue), pq_tried(subscriber.val().send_queue), message));
//@|                    }
//@ afterloop 2
//@|            proof {
//@|                assert forall|j: int| 0 <= j < e0.order@.len() && j != e0.idx@ implies #[trigger] subscriber.map@[e0.order@[j]] == e0.map@[e0.order@[j]] by {
//@|                    assert(e0.order@[j] != e0.k());
//@|                }
//@|            }
//@|            let ghost e1 = subscriber;
//@ hint after "iter = subscriber.next_async().await;"
//@|            proof {
//@|                assert(t0[e0.k()] == s0);
//@|                assert(e1.order == e0.order && e1.idx == e0.idx);
//@|                assert(e1.map@[e0.k()] == e1.val());
//@|                assert(delivered_iff(s0, e1.val(), message));
//@|                assert(delivered_iff(t0[e0.order@[e0.idx@]], e1.map@[e0.order@[e0.idx@]], message));
//@|                assert forall|j: int| 0 <= j < e0.idx@ implies delivered_iff(t0[e0.order@[j]], #[trigger] e1.map@[e0.order@[j]], message) by {
//@|                    assert(e1.map@[e0.order@[j]] == e0.map@[e0.order@[j]]);
//@|                    assert(delivered_iff(t0[e0.order@[j]], e0.map@[e0.order@[j]], message));
//@|                }
//@|                assert forall|j: int| e0.idx@ < j < e0.order@.len() implies #[trigger] e1.map@[e0.order@[j]] == t0[e0.order@[j]] by {
//@|                    assert(e1.map@[e0.order@[j]] == e0.map@[e0.order@[j]]);
//@|                }
//@|                if iter is None {
//@|                    assert forall|k: PeerIdentity| t0.contains_key(k) implies delivered_iff(t0[k], #[trigger] tfv[k], message) by {
//@|                        assert(e1.order@.contains(k));
//@|                        let j = choose|j: int| 0 <= j < e1.order@.len() && e1.order@[j] == k;
//@|                        assert(e1.map@[e1.order@[j]] == tfv[k]);
//@|                    }
//@|                }
//@|            }
//@ afterloop 1
//@|        proof { assert(self.backend.subscribers@ == tfv); }
//@ loop 3
//@|            invariant
//@|                tfv.dom() =~= t0.dom(), forall|k: PeerIdentity| t0.contains_key(k) ==> delivered_iff(t0[k], #[trigger] tfv[k], message),
//@|                forall|k: PeerIdentity| #[trigger] self.backend.subscribers@.contains_key(k) ==> tfv.contains_key(k) && self.backend.subscribers@[k] == tfv[k],
//@ end
}

// ---- XPUB: the same send loop (src/xpub.rs) ----
spec fn xdelivered_iff(s0: XPubSubscriber, s1: XPubSubscriber, m: ZmqMessage) -> bool {
    &&& s1.subscriptions == s0.subscriptions
    &&& if matches_any(xtopics(s0), first_frame(m)) { handed_one(pq_tried(s0.send_queue), pq_tried(s1.send_queue), m) } else { pq_tried(s1.send_queue) == pq_tried(s0.send_queue) }
}
impl XPubSocketBackend {
//@ item src/xpub.rs :: impl SocketBackend for XPubSocketBackend / fn socket_type
//@ name XPubSocketBackend::socket_type
//@ inherent
//@ ret r
//@ spec
//@|        ensures r is XPUB,
//@ end
//@ item src/xpub.rs :: impl MultiPeerBackend for XPubSocketBackend / fn peer_disconnected
//@ name XPubSocketBackend::peer_disconnected
//@ inherent
//@ receiver-mut
//@ spec
//@|        ensures final(self).subscribers@ == old(self).subscribers@.remove(*peer_id),
//@|            // C16: the queued read half is dropped as well
//@|            final(self).fair_queue_inner.inner.streams@ == old(self).fair_queue_inner.inner.streams@.remove(*peer_id),
//@ end
}
//@ item src/xpub.rs :: struct XPubSocket
//@ end
impl XPubSocket {
//@ item src/xpub.rs :: impl SocketSend for XPubSocket / fn send
//@ name XPubSocket::send
//@ inherent
//@ subst-re "subscriber\s*\.send_queue\s*\.as_mut\(\)\s*\.try_send\("
//@|    assumed_pinned_try_send(&mut subscriber.send_queue,
//@ ret r
//@ spec
//@|        requires message.fr().len() >= 1,
//@|        ensures
//@|            // every subscriber that is still registered afterwards was registered before and got the message iff
//@|            // one of its subscriptions is a prefix of the first frame - exactly once, even if several match
//@|            r is Ok ==> forall|k: PeerIdentity| #[trigger] final(self).backend.subscribers@.contains_key(k) ==>
//@|                old(self).backend.subscribers@.contains_key(k)
//@|                && xdelivered_iff(old(self).backend.subscribers@[k], final(self).backend.subscribers@[k], message),
//@|            // a dead (I/O error) or slow (buffer full) subscriber never makes the publish fail for the others
//@|            r is Err ==> fatal_for_publish(r->Err_0),
//@ hint start
//@|        let ghost t0 = self.backend.subscribers@;
//@|        let ghost first = first_frame(message);
//@ hint before "while let Some(mut subscriber) = iter"
//@|        // the table as the traversal will leave it (prophecy of the borrow the entries hold)
//@|        let ghost tfv = if iter is Some { final(iter->Some_0.map)@ } else { t0 };
//@ loop 1
//@|            invariant
//@|                iter matches Some(e) ==> e.wf() && final(e.map)@ == tfv && e.map@.dom() =~= t0.dom()
//@|                    && (forall|j: int| e.idx@ <= j < e.order@.len() ==> e.map@[e.order@[j]] == t0[e.order@[j]])
//@|                    && (forall|j: int| 0 <= j < e.idx@ ==> xdelivered_iff(t0[e.order@[j]], #[trigger] e.map@[e.order@[j]], message)),
//@|                iter is None ==> tfv.dom() =~= t0.dom() && (forall|k: PeerIdentity| t0.contains_key(k) ==> xdelivered_iff(t0[k], #[trigger] tfv[k], message)),
//@|                message.fr().len() >= 1, first == first_frame(message),
//@|            ensures
//@|                iter is None,
//@|            decreases (if iter is Some { iter->Some_0.order@.len() - iter->Some_0.idx@ } else { 0 })
//@ loopbody 1
//@|            let ghost s0 = subscriber.val();
//@|            let ghost e0 = subscriber;
//@|            proof { assert(e0.order@.contains(e0.k())); }
//@ loop 2 it
//@|                invariant_except_break
//@|                    forall|j: int| 0 <= j < it.index() ==> !is_prefix(#[trigger] xtopics(s0)[j], first),
//@|                    subscriber.val() == s0,
//@|                invariant
//@|                    subscriber.map@ =~= e0.map@.insert(e0.k(), subscriber.val()),
//@|                    e0.map@.contains_key(e0.k()),
//@|                    it.seq() =~= s0.subscriptions@.as_ref(),
//@|                    0 <= it.index() <= s0.subscriptions@.len(),
//@|                    e0.wf(), s0 == e0.val(),
//@|                    subscriber.wf(), subscriber.order == e0.order, subscriber.idx == e0.idx,
//@|                    final(subscriber.map)@ == tfv,
//@|                    message.fr().len() >= 1, first == first_frame(message),
//@|                ensures
//@|                    xdelivered_iff(s0, subscriber.val(), message),
//@ loopbody 2
//@|                proof {
//@|                    assert(it.seq()[it.index() as int] == sub_filter);
//@|                    assert(sub_filter@ == xtopics(s0)[it.index() as int]);
//@|                }
//@ hint before "let res = subscriber"
//@|                    proof {
//@|                        assert(sub_filter@ =~= first.subrange(0, sub_filter@.len() as int));
//@|                        assert(is_prefix(xtopics(s0)[it.index() as int], first));
//@|                    }
//@ hint? before "break;"
//@|                    proof {
//@|                        assert(subscriber.val().subscriptions == s0.subscriptions);
//@|                        assert(matches_any(xtopics(s0), first));
//@|                        assert(pq_tried(subscriber.val().send_queue).len() == pq_tried(s0.send_queue).len() + 1);
//@|                        assert(pq_tried(subscriber.val().send_queue).drop_last() =~= pq_tried(s0.send_queue));
//@|                        assert(handed_one(pq_tried(s0.send_queue), pq_tried(subscriber.val().send_queue), message));
//@|                    }
//@ afterloop 2
//@|            proof {
//@|                assert forall|j: int| 0 <= j < e0.order@.len() && j != e0.idx@ implies #[trigger] subscriber.map@[e0.order@[j]] == e0.map@[e0.order@[j]] by {
//@|                    assert(e0.order@[j] != e0.k());
//@|                }
//@|            }
//@|            let ghost e1 = subscriber;
//@ hint after "iter = subscriber.next_async().await;"
//@|            proof {
//@|                assert(t0[e0.k()] == s0);
//@|                assert(e1.order == e0.order && e1.idx == e0.idx);
//@|                assert(e1.map@[e0.k()] == e1.val());
//@|                assert(xdelivered_iff(s0, e1.val(), message));
//@|                assert(xdelivered_iff(t0[e0.order@[e0.idx@]], e1.map@[e0.order@[e0.idx@]], message));
//@|                assert forall|j: int| 0 <= j < e0.idx@ implies xdelivered_iff(t0[e0.order@[j]], #[trigger] e1.map@[e0.order@[j]], message) by {
//@|                    assert(e1.map@[e0.order@[j]] == e0.map@[e0.order@[j]]);
//@|                    assert(xdelivered_iff(t0[e0.order@[j]], e0.map@[e0.order@[j]], message));
//@|                }
//@|                assert forall|j: int| e0.idx@ < j < e0.order@.len() implies #[trigger] e1.map@[e0.order@[j]] == t0[e0.order@[j]] by {
//@|                    assert(e1.map@[e0.order@[j]] == e0.map@[e0.order@[j]]);
//@|                }
//@|                if iter is None {
//@|                    assert forall|k: PeerIdentity| t0.contains_key(k) implies xdelivered_iff(t0[k], #[trigger] tfv[k], message) by {
//@|                        assert(e1.order@.contains(k));
//@|                        let j = choose|j: int| 0 <= j < e1.order@.len() && e1.order@[j] == k;
//@|                        assert(e1.map@[e1.order@[j]] == tfv[k]);
//@|                    }
//@|                }
//@|            }
//@ afterloop 1
//@|        proof { assert(self.backend.subscribers@ == tfv); }
//@ loop 3
//@|            invariant
//@|                tfv.dom() =~= t0.dom(), forall|k: PeerIdentity| t0.contains_key(k) ==> xdelivered_iff(t0[k], #[trigger] tfv[k], message),
//@|                forall|k: PeerIdentity| #[trigger] self.backend.subscribers@.contains_key(k) ==> tfv.contains_key(k) && self.backend.subscribers@[k] == tfv[k],
//@ end
}

impl XPubSocket {
// C11: XPUB hands every subscription message to the application verbatim (the first message item the queue yields),
// after applying it to the subscriber table
//@ item src/xpub.rs :: impl SocketRecv for XPubSocket / fn recv
//@ name XPubSocket::recv
//@ inherent
//@ attr
//@|    #[verifier::loop_isolation(false)]
//@|    #[verifier::exec_allows_no_decreases_clause]
//@ ret r
//@ spec
//@|        ensures
//@|            plain_received(old(self).fair_queue.log@, final(self).fair_queue.log@, r),
//@|            r is Ok ==> exists|m: Message| m is Message && m->Message_0.fr() == r->Ok_0.fr()
//@|                && #[trigger] xsub_applied(old(self).backend.subscribers@, final(self).backend.subscribers@, final(self).fair_queue.log@.last()->Some_0.0, m),
//@|            failed_item(final(self).fair_queue.log@.last()) ==> final(self).backend.subscribers@ == old(self).backend.subscribers@.remove(final(self).fair_queue.log@.last()->Some_0.0),
//@|            final(self).fair_queue.log@.last() is None ==> final(self).backend.subscribers@ == old(self).backend.subscribers@,
//@|            // C16: a peer whose failure this call reports is forgotten completely (queued read half too)
//@|            failed_item(final(self).fair_queue.log@.last()) ==> final(self).backend.fair_queue_inner.inner.streams@ == old(self).backend.fair_queue_inner.inner.streams@.remove(final(self).fair_queue.log@.last()->Some_0.0),
//@|            !failed_item(final(self).fair_queue.log@.last()) ==> final(self).backend.fair_queue_inner.inner.streams@ == old(self).backend.fair_queue_inner.inner.streams@,
//@ loop 1
//@|            invariant
//@|                self.fair_queue.log@.len() >= old(self).fair_queue.log@.len(),
//@|                self.fair_queue.log@.subrange(0, old(self).fair_queue.log@.len() as int) =~= old(self).fair_queue.log@,
//@|                forall|i: int| old(self).fair_queue.log@.len() <= i < self.fair_queue.log@.len() ==> skipped_item(#[trigger] self.fair_queue.log@[i]),
//@|                self.backend.subscribers@ == old(self).backend.subscribers@,
//@|                self.backend.fair_queue_inner.inner.streams@ == old(self).backend.fair_queue_inner.inner.streams@,
//@ end
}

} // verus!
pub struct Uuid([u8; 16]);
impl Uuid {
    pub fn new_v4() -> Self { Uuid([0; 16]) }
    pub fn as_bytes(&self) -> &[u8; 16] { &self.0 }
}
fn main() {}
