"""Per-property configuration: which units / functions / obligation kinds / Kani harnesses decide it."""

F = {'post', 'inv-entry', 'inv-end', 'assert'}                                    # functional obligations
S = {'pre', 'overflow', 'decreases', 'div0', 'shift', 'unreachable'}              # body-safety obligations
A = F | S

COMMON_TRUSTED = [
    'Verus 0.2026.09.13 + z3; Kani 0.68 + CBMC 6.11; rustc',
    'extractor tools/extract.py: drops D1-D5 only (listed per function under coverage.extraction[].drops)',
    "unsafe code inside `bytes`, std and the other dependencies (zeromq itself is built with -Dunsafe_code)",
]
COMMON_ASSUMPTIONS = [
    '64-bit target (usize == u64); Verus checks machine-integer overflow on every exec operation, integers in spec functions are mathematical',
    'assumed specifications of the `bytes` crate and of the std functions vstd does not cover (prelude/bytes_specs.rs, prelude/std_specs.rs): sequence semantics with the real panic conditions as preconditions',
    'Bytes::clone returns an equal value (second handle on the same immutable octets)',
]

KANI_DOMAIN = {
    'compat_table': 'all 12x12 socket type pairs',
    'mech_parse': 'all 2^160 values of the 20 octet mechanism field',
    'socktype_parse': 'all octet strings of length <= 8 (names are <= 6 octets)',
    'socktype_as_str': 'the twelve socket types',
    'greeting_ser': 'every version (u8,u8) x 3 mechanisms x as_server in {false,true}',
    'greeting_default': 'the single default greeting',
    'cmdname_as_str': 'the single command name',
    'bytes_spec_bm_read': 'BytesMut of <= 8 octets', 'bytes_spec_bm_write': 'symbolic u8/u32/u64 and slices of <= 8 octets', 'bytes_spec_b_from_str': 'one literal',
    'bytes_spec_bm_split_to': 'BytesMut of <= 4 octets', 'bytes_spec_bm_freeze': 'BytesMut of <= 4 octets',
    'bytes_spec_b_basic': 'Bytes of <= 4 octets', 'bytes_spec_b_split_to': 'Bytes of <= 4 octets', 'bytes_spec_b_advance': 'Bytes of <= 4 octets', 'bytes_spec_b_get': 'Bytes of <= 4 octets',
    'encode_loop3': 'messages of 1..=3 frames drawn from the static bodies "", "a", "b"',
    'encode_loop': 'messages of 1..=3 frames with bodies of 0..=2 symbolic octets',
    'ready_ser': 'READY for every socket type, identity absent or 1..=3 symbolic octets',
}

# (regex on "<unit>::<fn>", counterexample harness): Kani cannot finish harnesses through the codec in useful time,
# so no counterexample harness is registered for Verus obligations; Kani failures are replayed with concrete playback
CEX_HARNESS = []

MSG_FNS = r'^ZmqMessage::|ZmqMessage as '

PROPS = {
    'C01': {
        'units': ['codec', 'message', 'pubsub', 'reqrep', 'routing', 'sub'],
        'scope': [
            # a message IS its frame sequence: every ZmqMessage operation against the Seq view (src/message.rs)
            ('message', r'^ZmqMessage::|ZmqMessage as ', A, None),
            # the READY a socket emits names its own type: each backend's socket_type(), and the constructor that fixes it
            ('pubsub', r'^(PubSocketBackend|XPubSocketBackend)::socket_type$', A, None),
            ('reqrep', r'^(ReqSocketBackend|RepSocketBackend)::socket_type$', A, None),
            ('routing', r'^GenericSocketBackend::(socket_type|with_options)$|^(RouterSocket|DealerSocket|PushSocket|PullSocket)::with_options$', A, None),
            ('sub', r'^SubSocketBackend::(socket_type|with_options)$|^SubSocket::with_options$', A, None),
            ('codec', r'^encode_frame$', A, None),
            ('codec', r'^ZmqCodec::encode$', A, None),
            ('codec', r'^ZmqCodec::decode$', F, r'^(?!bm_reserved)'),
            ('codec', r'^ZmqCodec::new$', A, None),
            ('codec', r'ZmqGreeting as TryFrom', A, None),
            ('codec', r'ZmqMechanism as TryFrom', A, None),
            ('codec', r'ZmqCommand as TryFrom', A, None),
            ('codec', r'^ZmqMessage::push_back$|ZmqMessage as From<Bytes>', A, None),
            ('codec', r'^tmpl::lemma_(roundtrip|be64|flags|ready_)', A, None),
            ('codec', r'^ZmqCommand::serialize$|^ZmqCommandName::as_str$', A, None),
        ],
        'kani': {
            'quick': [('greeting_ser', 'complete'), ('greeting_default', 'complete'), ('mech_parse', 'complete'), ('cmdname_as_str', 'complete')],
            'thorough': [('greeting_ser', 'complete'), ('greeting_default', 'complete'), ('mech_parse', 'complete'), ('cmdname_as_str', 'complete')],
        },
        'assumptions': [],
        'not_covered': [],
    },
    'C02': {
        'units': ['codec', 'handshake', 'routing'],
        'scope': [
            # the hand-over: each handshake step reads exactly ONE item (whatever arrived with it stays buffered in the
            # reader), the framed reader is handed on whole (into_parts is the identity) and is what gets registered
            ('handshake', r'^greet_exchange$|^ready_exchange$|^util::peer_connected$|^FramedIo::into_parts$', F, None),
            ('routing', r'^FramedIo::into_parts$|^GenericSocketBackend::peer_connected$', F, None),
            ('codec', r'^ZmqCodec::decode$', F, r'^(?!bm_reserved)'),
            ('codec', r'^ZmqCodec::new$', A, None),
            ('codec', r'^ZmqMessage::push_back$|ZmqMessage as From<Bytes>', A, None),
            ('codec', r'^tmpl::(lemma_seg_|lemma_step_progress|rfc_drain_decreases)', A, None),
        ],
        'kani': {},
        'assumptions': [],
        'not_covered': [],
    },
    'C04': {
        'units': ['handshake', 'codec', 'pubsub', 'reqrep', 'routing', 'sub'],
        'scope': [
            # the READY a socket emits names its own type: each backend's socket_type(), and the constructor that fixes it
            ('pubsub', r'^(PubSocketBackend|XPubSocketBackend)::socket_type$', A, None),
            ('reqrep', r'^(ReqSocketBackend|RepSocketBackend)::socket_type$', A, None),
            ('routing', r'^GenericSocketBackend::(socket_type|with_options)$|^(RouterSocket|DealerSocket|PushSocket|PullSocket)::with_options$', A, None),
            ('sub', r'^SubSocketBackend::(socket_type|with_options)$|^SubSocket::with_options$', A, None),
            # a peer is registered exactly once, under the identity the handshake produced
            ('routing', r'^GenericSocketBackend::peer_connected$', F, None),
            ('reqrep', r'^(ReqSocketBackend|RepSocketBackend)::peer_connected$', F, None),
            ('codec', r'ZmqGreeting as TryFrom', A, None),
            ('codec', r'ZmqCommand as TryFrom', A, None),
            ('handshake', r'^SocketType::compatible$', A, None),
            ('handshake', r'^SocketType::as_str$|SocketType as TryFrom', A, None),
            ('handshake', r'PeerIdentity as TryFrom<Bytes>|PeerIdentity as Default|^PeerIdentity::new$', A, None),
            ('handshake', r'ZmqGreeting as Default', A, None),
            ('handshake', r'^negotiate_version$', A, None),
            ('handshake', r'^greet_exchange$|^ready_exchange$|^util::peer_connected$', A, None),
            ('handshake', r'^ZmqCommand::ready$|^ZmqCommand::add_properties$|Bytes as From<PeerIdentity>', A, None),
            ('handshake', r'^FramedIo::into_parts$', A, None),
            ('handshake', r'^tmpl::lemma_(rfc_compatible|socktype|str_key)', A, None),
        ],
        'kani': {
            'quick': [('compat_table', 'complete'), ('socktype_parse', 'bounded'), ('socktype_as_str', 'complete'), ('mech_parse', 'complete')],
            'thorough': [('compat_table', 'complete'), ('socktype_parse', 'bounded'), ('socktype_as_str', 'complete'), ('mech_parse', 'complete')],
        },
        'assumptions': [
            'FramedRead::next may return any item (the peer controls it) and appends it to a ghost log; FramedWrite::send = feed + flush, appends to a ghost log on Ok only',
            'String is a well-behaved hash key and `str` borrows it by content; String::from(&str) copies the characters; HashMap::extend = union (later pairs win)',
            'generated identities (UUIDv4) are modelled as ONE abstract value fresh_identity(): nothing is claimed about their uniqueness',
            'the backend stand-in `dyn MultiPeerBackend` has exactly the three methods the handshake calls; its peer_connected REQUIRES handshake_completed(io, id)',
        ],
        'not_covered': [
            'that registration actually happens on the Ok path (the effect of Arc<dyn MultiPeerBackend>::peer_connected is behind a shared reference; only its precondition is an obligation); at-most-once and same-connection follow from FramedIo being moved',
            'uniqueness of generated identities; closing of a rejected connection (Rust ownership: FramedIo dropped on the ? path); reporting to caller / monitor (async closure in Socket::bind)',
        ],
    },
    'C07': {
        'units': ['message', 'reqrep'],
        'scope': [
            ('message', r'^ZmqMessage::', A, None),
            ('reqrep', r'^ZmqMessage::(push_front|pop_front|prepend|split_off|len|is_empty)$', A, None),
            ('reqrep', r'^ReqSocket::send$', F, None),
            ('reqrep', r'^ReqSocket::send$', S, None),
            ('reqrep', r'^ReqSocket::recv$', F, r'req_received_from'),
            ('reqrep', r'^ReqSocket::recv$', S, None),
            ('reqrep', r'^RepSocket::send$', A, None),
            ('reqrep', r'^RepSocket::recv$', {'post', 'inv-entry', 'inv-end'}, None),
            ('reqrep', r'^RepSocket::recv$', {'assert'}, r'delimiter_end|it\.seq|index =='),
            ('reqrep', r'^RepSocket::recv$', S, None),
            ('reqrep', r'^tmpl::lemma_delimiter', A, None),
        ],
        'kani': {},
        'assumptions': [
            'the delimiter-search loop `for (index, frame) in m.iter().enumerate()` in RepSocket::recv IS verified (former assumed region A-REGION-1), against an ASSUMED model of std: in this unit `Iter` / `enumerate()` are stand-ins that yield (0,&v[0]), (1,&v[1]), .. in order (prelude/enum_iter.rs), and ZmqMessage::iter / prepend are stubs whose contracts are verified in unit `message`',
            'stand-ins with assumed contracts: scc::HashMap as a map (get_async yields &mut to exactly the entry of k), SegQueue as FIFO, FairQueue::next / FramedRead::next yield any item and log it, FramedWrite::send = feed + flush',
            'Arc<T> modelled as Box<T> and interior mutability as &mut (D7): no other task touches the backend during one call (sequential scope)',
        ],
        'not_covered': ['requests arriving through real DEALER / ROUTER chains as a whole (each hop is covered by its own contract: C09, C10)'],
    },
    'C08': {
        'units': ['reqrep'],
        'scope': [
            ('reqrep', r'^ReqSocket::send$', A, None),
            # lock-step also across an abandoned recv: the await-point invariants (the marker is cleared only after the read)
            ('reqrep', r'^ReqSocket::recv$', {'post', 'assert'}, None),
            ('reqrep', r'^ReqSocket::recv$', S, None),
            ('reqrep', r'^RepSocket::send$', A, None),
            ('reqrep', r'^RepSocket::recv$', {'post', 'inv-entry', 'inv-end', 'assert'}, None),
            ('reqrep', r'^ReqSocketBackend::|^RepSocketBackend::peer_(connected|disconnected)$', A, None),
            ('reqrep', r'^tmpl::lemma_first_live', A, None),
        ],
        'kani': {},
        'assumptions': [
            'sequential scope: Arc<T> as Box<T>, interior mutability as &mut (D7); scc::HashMap really is a map; the monitor channel is a stand-in (try_send result ignored)',
        ],
        'not_covered': ['interleavings of concurrent clients as such: the contracts say each call pairs request and reply by peer identity whatever other calls did'],
    },
    'C09': {
        'units': ['routing', 'handshake'],
        'scope': [
            # provenance of the identity a peer is registered under (announced in READY, or generated)
            ('handshake', r'^ready_exchange$|^util::peer_connected$', A, None),
            ('handshake', r'PeerIdentity as TryFrom<Bytes>|PeerIdentity as Default', A, None),
            ('routing', r'^RouterSocket::', A, None),
            ('routing', r'^GenericSocketBackend::peer_(connected|disconnected)$', A, None),
            ('routing', r'PeerIdentity as TryFrom<Bytes>|Bytes as From<PeerIdentity>|^PeerIdentity::|PeerIdentity as Clone', A, None),
            ('routing', r'^FramedIo::into_parts$', A, None),
            ('routing', r'^tmpl::lemma_identity_of', A, None),
        ],
        'kani': {},
        'assumptions': [
            '`match &self.fair_queue_inner {..}` in GenericSocketBackend::peer_connected / peer_disconnected is verified with the shared borrow turned into `&mut` (D7 `mutref`, former assumed regions A-REGION-3/4): the read half is queued under, and removed by, the same identity',
            'sequential scope (Arc as Box, D7); the identity under which a peer is registered is the one util::peer_connected passes (C04)',
        ],
        'not_covered': ['which OS connection an identity denotes when two peers announce the same identity (upsert replaces)', 'RouterSocket::send with fewer than 2 frames (assert! in the code; the premise of the property itself)'],
    },
    'C10': {
        'units': ['routing', 'reqrep'],
        'scope': [
            ('routing', r'^GenericSocketBackend::send_round_robin$', A, None),
            ('routing', r'^GenericSocketBackend::peer_(connected|disconnected)$', A, None),
            ('routing', r'^DealerSocket::send$|^PushSocket::send$', A, None),
            ('routing', r'^tmpl::lemma_(first_live|rotation)', A, None),
            ('reqrep', r'^ReqSocket::send$', A, None),
            ('reqrep', r'^ReqSocketBackend::peer_connected$', A, None),
            ('reqrep', r'^tmpl::lemma_first_live', A, None),
        ],
        'kani': {},
        'assumptions': [
            'SinkExt::send completes only after a successful flush (futures contract): the FramedWrite::send stand-in appends to the flushed log exactly on Ok',
            'sequential scope (Arc as Box, D7); SegQueue is a FIFO',
        ],
        'not_covered': ['strict rotation is proved as a lemma over the queue postcondition (lemma_rotation_strict: the k-th of n consecutive successful sends goes to the k-th identity of the queue) for a queue whose identities are all live; that the n identities are n DIFFERENT peers needs a duplicate-free queue, which peer_connected establishes by pushing each identity once and which is not re-proved as a global invariant across calls'],
    },
    'C05': {
        'units': ['fairqueue', 'routing', 'reqrep', 'sub', 'pubsub', 'codec'],
        'scope': [
            # the queue: an item is labelled with the key of the stream it was read from, that stream has yielded exactly
            # this one more item and is put back, every other stream keeps its history, only an ended stream is dropped;
            # registration / removal touch exactly one key; the whole-history corollary (lemma_trace_*)
            ('fairqueue', r'^FairQueue::poll_next$|^QueueInner::(insert|remove)$|^StreamWaker::wake_by_ref$', A, None),
            ('fairqueue', r'^tmpl::lemma_trace', A, None),
            # every receiving socket type: the items consumed by one call are non-message items skipped by design plus
            # exactly one message (returned with the same frames, or refused as ONE error) / one failure / the end
            ('routing', r'^(RouterSocket|DealerSocket|PullSocket)::recv$', F, None),
            ('routing', r'^tmpl::lemma_recv_trace', A, None),
            ('reqrep', r'^RepSocket::recv$', F, None),
            ('sub', r'^SubSocket::recv$', F, None),
            ('pubsub', r'^XPubSocket::recv$', F, None),
            # the read half that is polled is the one the handshake used, registered under the peer's identity
            ('routing', r'^FramedIo::into_parts$|^GenericSocketBackend::peer_(connected|disconnected)$', F, None),
            ('reqrep', r'^RepSocketBackend::peer_(connected|disconnected)$', F, None),
            # per connection: whole messages only, each once, in order, never merged or split (the RFC stream decoder)
            ('codec', r'^ZmqCodec::decode$', F, r'^(?!bm_reserved)'),
            ('codec', r'^ZmqCodec::new$', A, None),
            ('codec', r'^ZmqMessage::push_back$|ZmqMessage as From<Bytes>', A, None),
            ('codec', r'^tmpl::(lemma_seg_|lemma_step_progress|rfc_drain_decreases)', A, None),
        ],
        'kani': {},
        'assumptions': [
            'SEQUENTIAL scope: FairQueue::poll_next is verified as if the queue lock were held for the whole call (Arc<Mutex<..>> as owned data, one poll at a time). The window in which a stream is checked out while ANOTHER task inserts, wakes or removes streams - the concurrency the property quantifies over - is not decided; what is decided is every history of calls, with any behaviour of every stream, in which calls do not overlap',
            '`io_stream.as_mut().poll_next(&mut cx)` is an assumed expression (Pin::as_mut): a poll yields Pending, one more item of that stream, or its end; a stream is its sequence of yielded items',
            'FairQueue::next in the socket units is a stand-in that yields ANY (peer, item) pair and logs it; the socket-level contracts speak about that log, the queue-level contracts (unit fairqueue) about the real queue; that next() == one poll_next that returned Ready is the futures StreamExt contract',
            'asynchronous-codec FramedRead: appends what it reads to one buffer, calls decode repeatedly, yields what decode yields in that order, and at end of input reports leftover octets as an error (a message cut short is not yielded: decode itself never yields an incomplete message - proved)',
            'fairqueue unit: the std Clone trait is shadowed by a stand-in whose contract is "a clone equals the original" (assumption on the key type), BinaryHeap is a bag, AtomicUsize tickets are arbitrary',
        ],
        'not_covered': ['interleavings: peers added, woken or removed by other tasks WHILE poll_next has a stream checked out (the lock is released around the inner poll); stale wake-ups from other threads', 'which peer is served next (fairness: C06)', 'SUB / XPUB / PUB reader tasks that do not go through the fair queue'],
    },
    'C14': {
        'units': ['reqrep', 'routing', 'fairqueue'],
        'scope': [
            # the queue every fair-queue based recv awaits: all state lives in the queue, Pending registers the current waker
            ('fairqueue', r'^FairQueue::poll_next$|^QueueInner::(insert|remove)$|^StreamWaker::wake_by_ref$', A, None),
            ('reqrep', r'^ReqSocket::recv$', {'assert'}, None),
            ('reqrep', r'^RepSocket::recv$', {'assert', 'inv-entry', 'inv-end'}, None),
            # what an abandoned recv still owes must survive the calls made in between: a refused send changes nothing
            ('reqrep', r'^ReqSocket::send$|^RepSocket::send$', F, None),
            ('routing', r'^(RouterSocket|DealerSocket|PullSocket|SubSocket|XPubSocket)::recv$', {'assert', 'inv-entry', 'inv-end'}, None),
        ],
        'kani': {},
        'assumptions': [
            'FramedRead::next and scc get_async are themselves cancel-safe (state lives in the reader / map, not in the future): NOT verified',
            'FairQueue::poll_next is verified in SEQUENTIAL scope only (Arc<Mutex<..>> as owned data, one poll at a time): on Pending the current waker is registered and the ready heap is empty; a checked-out stream is put back unless it ended; an item is labelled with the key of its stream. Wake-ups from other threads, lock hand-over and fairness are not modelled (C05/C06 not applicable)',
            'fairqueue unit: the std Clone trait is shadowed by a stand-in whose contract is "a clone equals the original" (assumption on the key type), `io_stream.as_mut().poll_next(&mut cx)` is an assumed expression (Pin::as_mut), BinaryHeap is a bag, AtomicUsize tickets are arbitrary',
            'cancellation points are exactly the `.await`s (D2 removes them; the await-invariant is asserted immediately before the statement that contained each one)',
        ],
        'not_covered': ['proxy() itself (select! expansion)', 'the decoder half (partial frames survive a dropped read) is C02'],
    },
    'C11': {
        'units': ['pubsub'],
        'scope': [
            # delivery: PUB / XPUB send hands the message to a subscriber's writer iff a subscription is a prefix, once
            ('pubsub', r'^(PubSocket|XPubSocket)::send$', A, None),
            # bookkeeping: SUBSCRIBE appends, CANCEL removes the first equal topic, anything else changes nothing
            ('pubsub', r'^(PubSocketBackend|XPubSocketBackend)::message_received$', A, None),
            ('pubsub', r'^(PubSocketBackend|XPubSocketBackend)::peer_disconnected$', A, None),
            ('pubsub', r'^ZmqMessage::into_vec$', A, None),
            # XPUB hands the subscription message to the application verbatim, after applying it to the table
            ('pubsub', r'^XPubSocket::recv$', A, None),
        ],
        'kani': {},
        'assumptions': [
            'FairQueue::next yields ANY (peer, item) pair, logged (stand-in; the real queue is under contract in unit fairqueue): XPubSocket::recv returns the first message item verbatim and applies exactly that item (a clone with the same frames) to the sender\'s entry',
            'scc traversal (begin_async / next_async / OccupiedEntry Deref, DerefMut, key) is a stand-in cursor: it visits every key of the table exactly once in an order of its choosing, a change through the entry is a change of the table at that key, and the table afterwards is what the entries left (prophecy of the borrow). ASSUMED, sequential scope: nobody else touches the table during the traversal',
            '`subscriber.send_queue.as_mut().try_send(item)` is an assumed expression (Pin / TrySend over the external FramedWrite): one call hands exactly this item to exactly this writer, whatever the result; "delivered" below means handed to the connection\'s writer - whether the writer accepts or drops it at the high-water mark is C12',
            '`io::Error::kind()` is an assumed pure accessor (std::io::Error is external); ErrorKind itself, patterns and `==` on it are read as they are',
            '`entry.subscriptions.iter().position(|s| s == &sub)` in message_received is an assumed expression (first index with equal octets)',
            'ZmqMessage::clone is written out (derive dropped, D3) and verified to keep the frames',
            'send requires a message with at least one frame (an empty ZmqMessage makes `message.get(0).unwrap()` panic; ZmqMessage constructors never build one, split_off(0) can)',
        ],
        'not_covered': ['that subscription messages of one peer are processed in per-connection order, and the race between the PUB reader task and send (concurrency)', 'per-peer ORDER of the subscription messages XPUB hands to the application (that is the fair queue / decoder: C05, C02)', 'what happens on the Err path of send (a fatal writer error aborts the traversal: subscribers not yet visited get nothing)'],
    },
    'C13': {
        'units': ['sub', 'pubsub'],
        'scope': [
            # the RFC 29 frame itself (tag octet + topic): verified body (unit sub uses it through this contract)
            ('pubsub', r'^SubSocketBackend::create_subs_message$', A, None),
            # subscribe / unsubscribe: the set changes, every registered peer is attempted, `agrees` is preserved
            ('sub', r'^SubSocket::(subscribe|unsubscribe|process_subs)$', A, None),
            # late joiners: told the whole current set, then registered (the `.unwrap()` is modelled as return-only-if-Ok)
            ('sub', r'^SubSocketBackend::peer_connected$', A, None),
            # a failed peer is forgotten - that one only -, and a new socket starts with the invariant
            ('sub', r'^SubSocketBackend::peer_disconnected$|^SubSocket::with_options$|^SubSocketBackend::with_options$', A, None),
            ('sub', r'^tmpl::lemma_(told|announced|tagged|tags)', A, None),
        ],
        'kani': {},
        'assumptions': [
            'sequential scope: per-call contracts over an owned model (Arc as Box, Mutex as plain ownership); a peer that connects CONCURRENTLY with a subscribe call is outside what these contracts decide',
            'scc traversal (begin_async / next_async / OccupiedEntry) is the assumed cursor model of prelude/socket_standins.rs: every registered peer is visited exactly once, changes through the entry are changes of the table',
            'FramedWrite::send: Ok means everything buffered plus the item is on the wire; Err means nothing new is on the wire; `tried` counts the calls (ASSUMED stand-in for asynchronous-codec / futures SinkExt)',
            'the topic set is the image of the HashSet<String> under UTF-8; `insert` / `remove` are verified against vstd\'s HashSet specifications. ASSUMED axioms (vstd has key-model axioms for integer and Box keys only): String is a well-behaved hash key, Strings with equal characters are equal, &str borrows a String by content, the octets of a str are the UTF-8 encoding of its characters and that encoding is injective',
            '`subs.lock().iter().map(closure).collect()` in peer_connected is an assumed expression: one SUBSCRIBE message per topic of the set, each once, in an order of std\'s choosing',
            '`.unwrap()` on the snapshot send is modelled as "returns only if Ok": that the connect / accept task PANICS when the new peer\'s connection fails right after READY is not part of C13 and not claimed panic-free',
            'create_subs_message is used through its contract here and verified in unit pubsub (RFC 29 frame: one octet 0x01 / 0x00 + topic)',
            'precondition of peer_connected: the handshake has put no subscription-shaped message on the new connection (greeting and READY are not Message::Message items)',
        ],
        'not_covered': ['races between subscribe / unsubscribe and a background accept or connect (the property\'s "or concurrently with the call")', 'that a peer whose send failed is eventually forgotten (C16)', 'quiescence itself: the contracts speak about the state when a call has returned'],
    },
    'C16': {
        'units': ['routing', 'reqrep', 'sub', 'pubsub', 'fairqueue'],
        'scope': [
            # forgetting one peer's read half takes exactly that stream out of the queue: the other peers' streams and
            # pending wake-ups stay (isolation)
            ('fairqueue', r'^QueueInner::remove$', A, None),
            # a recv that reports a peer's failure has forgotten that peer completely (table entry AND queued read half:
            # so the failure cannot be reported again and no later send goes there); every other peer is untouched
            ('routing', r'^(RouterSocket|DealerSocket|PullSocket)::recv$', F, None),
            ('routing', r'^GenericSocketBackend::peer_disconnected$', A, None),
            ('reqrep', r'^RepSocket::recv$', {'post', 'inv-entry', 'inv-end'}, None),
            ('reqrep', r'^(RepSocketBackend|ReqSocketBackend)::peer_disconnected$', A, None),
            # REQ reads its peer directly: a failed read forgets that peer, so that the next send is not routed to it
            ('reqrep', r'^ReqSocket::recv$', {'post'}, r'req_received_from'),
            ('sub', r'^SubSocket::recv$', F, None),
            ('sub', r'^SubSocketBackend::peer_disconnected$', A, None),
            ('pubsub', r'^XPubSocket::recv$', F, None),
            ('pubsub', r'^(XPubSocketBackend|PubSocketBackend)::peer_disconnected$', A, None),
            # a subscriber whose pipe is broken is removed by the publish that notices it; the others are served
            ('pubsub', r'^(PubSocket|XPubSocket)::send$', {'post'}, r'fatal_for_publish|contains_key'),
            # a write that fails removes that peer from the table and the rotation (and only that peer)
            # (the loop measure is in scope too: a rotation that keeps the identities of forgotten peers makes a send with
            # no live peer left spin for ever - "never spins or hangs"; seeded change C16-J)
            ('routing', r'^GenericSocketBackend::send_round_robin$', {'post', 'inv-entry', 'inv-end', 'decreases'}, None),
            # REQ has its own copy of that loop: identities of forgotten peers are dropped from the rotation, not re-queued
            ('reqrep', r'^ReqSocket::send$', {'post', 'inv-entry', 'inv-end', 'decreases'}, None),
            # ROUTER: a send addressed to an identity that is not in the table fails and writes nothing
            ('routing', r'^RouterSocket::send$', {'post'}, None),
            # corollary: a forgotten peer is never the one a later round-robin send chooses
            ('routing', r'^tmpl::lemma_forgotten_not_chosen|^tmpl::lemma_first_live', A, None),
        ],
        'kani': {},
        'assumptions': [
            'sequential scope: per-call contracts over an owned model (Arc as Box, Mutex as plain ownership, scc / SegQueue / fair queue stand-ins); fault x schedule sequences are not enumerated',
            'FairQueue::next yields ANY (peer, item) pair, logged; that a connection which has ended yields an error item at all, and how often its FramedRead yields one while it stays registered, is asynchronous-codec behaviour (assumed; the defect demonstrations in findings/defect_demo_c16.rs show it yields one on EVERY poll)',
            '"released" is read as: no table entry and no queued read half is left for that identity - in Rust both halves are then dropped, which closes the transport; Drop itself, buffers inside asynchronous-codec and descriptor counts are not modelled',
            'GenericSocketBackend::peer_disconnected and QueueInner::remove are verified bodies (units routing / fairqueue); the fair queue also drops a stream that has ENDED (Ready(None)) by itself (unit fairqueue, reported under C14)',
        ],
        'not_covered': ['"never spins or hangs" as a liveness statement (only its cause - the read half left in the queue - is excluded)', 'an ORDERLY close between frames: the fair queue drops the ended stream by itself and reports nothing, so the table entry and write half of that peer stay until a later write fails (seen by reading, DESIGN section 5; outside these contracts, not repaired)', 'the PUB reader task (spawned; select!)', 'repeated connect / disconnect cycles over real transports, descriptor counts'],
    },
    'C03': {
        'units': ['codec', 'handshake', 'pubsub', 'reqrep', 'routing'],
        'scope': [
            # after the handshake a peer's octets arrive as queue items in the recv function of every socket type:
            # nothing they contain (frame count, empty frames, a failed item) may panic there
            ('reqrep', r'^(ReqSocket|RepSocket)::recv$', S, None),
            ('routing', r'^(RouterSocket|DealerSocket|PullSocket|SubSocket|XPubSocket)::recv$', S, None),
            ('pubsub', r'^XPubSocket::recv$', S, None),
            # a subscription a peer sent is later compared with what the application publishes: no slice out of range
            ('pubsub', r'^(PubSocket|XPubSocket)::send$', S, None),
            # the PUB / XPUB subscription-message parser: octets from a subscriber
            ('pubsub', r'^(PubSocketBackend|XPubSocketBackend)::message_received$', A, None),
            ('pubsub', r'^ZmqMessage::into_vec$', A, None),
            ('pubsub', r'^SubSocketBackend::create_subs_message$', A, None),
            ('handshake', r'^SocketType::compatible$', S, None),
            ('handshake', r'PeerIdentity as TryFrom<Bytes>', S, None),
            ('handshake', r'^negotiate_version$', S, None),
            ('handshake', r'^greet_exchange$|^ready_exchange$|^util::peer_connected$', S, None),
            ('codec', r'^ZmqCodec::decode$', S, None),
            ('codec', r'^ZmqCodec::decode$', {'post'}, r'^bm_reserved'),
            ('codec', r'^ZmqCodec::decode$', {'inv-entry', 'inv-end'}, r'bm_reserved|wf\(\)'),
            ('codec', r'^ZmqCodec::new$', A, None),
            ('codec', r'ZmqGreeting as TryFrom', S, None),
            ('codec', r'ZmqCommand as TryFrom', S, None),
            ('codec', r'^ZmqMessage::push_back$|ZmqMessage as From<Bytes>', S, None),
        ],
        'kani': {
            'quick': [('mech_parse', 'complete'), ('compat_table', 'complete'), ('socktype_parse', 'bounded')],
            'thorough': [('mech_parse', 'complete'), ('compat_table', 'complete'), ('socktype_parse', 'bounded'),
                         ('bytes_spec_bm_read', 'bounded'), ('bytes_spec_bm_write', 'bounded'), ('bytes_spec_b_from_str', 'bounded'),
                         ('bytes_spec_bm_split_to', 'bounded'), ('bytes_spec_bm_freeze', 'bounded'),
                         ('bytes_spec_b_basic', 'bounded'), ('bytes_spec_b_split_to', 'bounded'), ('bytes_spec_b_advance', 'bounded'), ('bytes_spec_b_get', 'bounded')],
        },
        'kani_timeout': {'thorough': 3000},
        'assumptions': [],
        'not_covered': ['"other connections keep working"; panics inside spawned tasks other than the verified parsers; memory allocated by Vec / String copies of received octets (proportional to bytes received by construction, not tracked by the ghost counter)'],
    },
}
