// Verus unit `handshake`: socket-type compatibility, identity rule, version negotiation and the
// sequential skeletons of greet_exchange / ready_exchange / util::peer_connected (serves C04 C03 C09)
#![feature(allocator_api)]
#![allow(unused_imports, dead_code, unused_variables, unused_mut, unused_parens)]
use vstd::prelude::*;
use bytes::{Buf, BufMut, Bytes, BytesMut};
use std::collections::vec_deque::{Iter, VecDeque};
use std::collections::HashMap;
use std::convert::{From, TryFrom, TryInto};
use std::sync::Arc;
use vstd::std_specs::iter::IteratorSpec;
verus! {
global size_of usize == 8;
//@@ include prelude/bytes_specs.rs
//@@ include prelude/std_specs.rs
//@@ include prelude/message_items.rs
//@@ include prelude/codec_types.rs

// ---- stand-ins for types ZmqError mentions but the handshake never inspects ----
#[verifier::external_body] pub struct Endpoint { _p: u8 }
#[verifier::external_body] pub struct EndpointError { _p: u8 }
#[verifier::external_body] pub struct TaskError { _p: u8 }

//@ item src/error.rs :: type ZmqResult
//@ end
//@ item src/error.rs :: enum ZmqError
//@ end

// `#[from]` on ZmqError::Codec (thiserror) generates this impl; supplied here (D3), verified as written
impl vstd::std_specs::convert::FromSpecImpl<CodecError> for ZmqError {
    open spec fn obeys_from_spec() -> bool { true }
    open spec fn from_spec(e: CodecError) -> Self { ZmqError::Codec(e) }
}
impl From<CodecError> for ZmqError {
    fn from(e: CodecError) -> (r: Self) { ZmqError::Codec(e) }
}

// =================================================================================
// Socket types and the RFC compatibility table
// =================================================================================
//@ item src/lib.rs :: const COMPATIBILITY_MATRIX
//@ end
//@ item src/lib.rs :: enum SocketType
//@ end

/// RFC 23 section "The Socket Type" + RFCs 28-31: "the peer socket type MUST be one of ...".
/// Written from the RFC text as a symmetric relation; STREAM is not a ZMTP peer type.
pub open spec fn rfc_compat_half(a: SocketType, b: SocketType) -> bool {
    match (a, b) {
        (SocketType::PAIR, SocketType::PAIR) => true,
        (SocketType::PUB, SocketType::SUB) | (SocketType::PUB, SocketType::XSUB) => true,
        (SocketType::XPUB, SocketType::SUB) | (SocketType::XPUB, SocketType::XSUB) => true,
        (SocketType::REQ, SocketType::REP) | (SocketType::REQ, SocketType::ROUTER) => true,
        (SocketType::DEALER, SocketType::REP) | (SocketType::DEALER, SocketType::DEALER) | (SocketType::DEALER, SocketType::ROUTER) => true,
        (SocketType::ROUTER, SocketType::ROUTER) => true,
        (SocketType::PUSH, SocketType::PULL) => true,
        _ => false,
    }
}
pub open spec fn rfc_compatible(a: SocketType, b: SocketType) -> bool {
    rfc_compat_half(a, b) || rfc_compat_half(b, a)
}
pub proof fn lemma_rfc_compatible_symmetric(a: SocketType, b: SocketType)
    ensures rfc_compatible(a, b) == rfc_compatible(b, a),
{}

pub open spec fn socktype_name(t: SocketType) -> Seq<u8> {
    match t {
        SocketType::PAIR => seq![0x50u8, 0x41, 0x49, 0x52],
        SocketType::PUB => seq![0x50u8, 0x55, 0x42],
        SocketType::SUB => seq![0x53u8, 0x55, 0x42],
        SocketType::REQ => seq![0x52u8, 0x45, 0x51],
        SocketType::REP => seq![0x52u8, 0x45, 0x50],
        SocketType::DEALER => seq![0x44u8, 0x45, 0x41, 0x4c, 0x45, 0x52],
        SocketType::ROUTER => seq![0x52u8, 0x4f, 0x55, 0x54, 0x45, 0x52],
        SocketType::PULL => seq![0x50u8, 0x55, 0x4c, 0x4c],
        SocketType::PUSH => seq![0x50u8, 0x55, 0x53, 0x48],
        SocketType::XPUB => seq![0x58u8, 0x50, 0x55, 0x42],
        SocketType::XSUB => seq![0x58u8, 0x53, 0x55, 0x42],
        SocketType::STREAM => seq![0x53u8, 0x54, 0x52, 0x45, 0x41, 0x4d],
    }
}

impl SocketType {
// as_str: contract ASSUMED here (Verus is weak on str octets), DISCHARGED by Kani `socktype_as_str` (complete)
//@ item src/lib.rs :: impl SocketType / fn as_str
//@ attr
//@|    #[verifier::external_body]
//@ ret r
//@ spec
//@|        ensures str_bytes(r) == socktype_name(*self),
//@ end

//@ item src/lib.rs :: impl SocketType / fn compatible
//@ ret r
//@ spec
//@|        ensures r == rfc_compatible(*self, other),
//@ end
}

impl vstd::std_specs::convert::TryFromSpecImpl<&[u8]> for SocketType {
    open spec fn obeys_try_from_spec() -> bool { false }
    open spec fn try_from_spec(v: &[u8]) -> Result<Self, ZmqError> { arbitrary() }
}
// byte-string patterns are outside Verus: contract ASSUMED, DISCHARGED by Kani `socktype_parse` (bounded 8)
//@ item src/lib.rs :: impl TryFrom<&[u8]> for SocketType
//@ fn try_from
//@ attr
//@|    #[verifier::external_body]
//@ ret r
//@ spec
//@|        ensures
//@|            r matches Ok(t) ==> s@ == socktype_name(t),
//@|            r is Err ==> forall|t: SocketType| s@ != socktype_name(t),
//@ end

// =================================================================================
// Peer identity
// =================================================================================
//@ item src/util.rs :: struct PeerIdentity
//@ drop-derive Clone
//@ end
// derive(Clone) on PeerIdentity: Verus gives derived non-Copy clones no spec, so the derive is dropped (D3)
// and the impl it generates is written out and verified against the assumed Bytes::clone.
impl Clone for PeerIdentity {
    fn clone(&self) -> (r: Self)
        ensures r == *self,
    { PeerIdentity(self.0.clone()) }
}
/// One abstract value stands for every generated identity: NOTHING is claimed about uniqueness of
/// generated identities, and no conclusion may depend on two of them being equal or different.
pub uninterp spec fn fresh_identity() -> PeerIdentity;

impl PeerIdentity {
    pub closed spec fn bytes(&self) -> Seq<u8> { b_view(&self.0) }
//@ item src/util.rs :: impl PeerIdentity / const MAX_LENGTH
//@ end
// Uuid::new_v4: randomness, external
//@ item src/util.rs :: impl PeerIdentity / fn new
//@ attr
//@|    #[verifier::external_body]
//@ ret r
//@ spec
//@|        ensures r == fresh_identity(),
//@ end
}
//@ item src/util.rs :: impl Default for PeerIdentity
//@ fn default
//@ ret r
//@ spec
//@|        ensures r == fresh_identity(),
//@ end

/// RFC 23: identity is 0..255 octets; an absent or empty identity means "assign one"
pub closed spec fn rfc_identity_of(data: Bytes) -> Result<PeerIdentity, ZmqError> {
    if b_view(&data).len() == 0 { Ok(fresh_identity()) }
    else if b_view(&data).len() > 255 { Err(ZmqError::PeerIdentity) }
    else { Ok(PeerIdentity(data)) }
}
impl vstd::std_specs::convert::TryFromSpecImpl<Bytes> for PeerIdentity {
    open spec fn obeys_try_from_spec() -> bool { true }
    open spec fn try_from_spec(v: Bytes) -> Result<Self, ZmqError> { rfc_identity_of(v) }
}
//@ item src/util.rs :: impl TryFrom<Bytes> for PeerIdentity
//@ fn try_from
//@ ret r
//@ spec
//@|        ensures r == rfc_identity_of(data),
//@ end

// =================================================================================
// Version negotiation (RFC 23: accept >= 3.0, speak 3.0)
// =================================================================================
//@ item src/codec/greeting.rs :: impl Default for ZmqGreeting
//@ fn default
//@ ret r
//@ spec
//@|        ensures r.version == (3u8, 0u8), r.as_server == false,
//@ end

pub open spec fn version_ge_3_0(v: ZmtpVersion) -> bool { v.0 >= 3 }

//@ item src/util.rs :: fn negotiate_version
//@ ret r
//@ spec
//@|    ensures
//@|        r is Ok <==> (greeting matches Message::Greeting(p) && version_ge_3_0(p.version)),
//@|        r matches Ok(v) ==> v == (3u8, 0u8),
//@ end

// =================================================================================
// Stand-ins for asynchronous-codec's framed halves: ASSUMED contracts, ghost logs.
// `next` may return ANY item (the peer controls it); `send` = feed + flush.
// =================================================================================
pub struct ZmqFramedRead { pub log: Ghost<Seq<Option<CodecResult<Message>>>> }
pub struct ZmqFramedWrite { pub sent: Ghost<Seq<Message>> }
impl ZmqFramedRead {
    #[verifier::external_body]
    pub fn next(&mut self) -> (r: Option<CodecResult<Message>>)
        ensures final(self).log@ == old(self).log@.push(r),
    { unimplemented!() }
}
impl ZmqFramedWrite {
    #[verifier::external_body]
    pub fn send(&mut self, item: Message) -> (r: Result<(), CodecError>)
        ensures
            r is Ok ==> final(self).sent@ == old(self).sent@.push(item),
            r is Err ==> final(self).sent@ == old(self).sent@,
    { unimplemented!() }
}
//@ item src/codec/framed.rs :: struct FramedIo
//@ end
impl FramedIo {
//@ item src/codec/framed.rs :: impl FramedIo / fn into_parts
//@ ret r
//@ spec
//@|        ensures r.0 == self.read_half, r.1 == self.write_half,
//@ end
}

// =================================================================================
// READY construction (src/codec/command.rs)
// =================================================================================
use vstd::std_specs::hash::{contains_borrowed_key, maps_borrowed_key_to_value, obeys_key_model};

// ASSUMED: String is a well-behaved hash key and `str` borrows it by content (String: Borrow<str>,
// Hash and Eq of both go by the characters). vstd has these axioms for integer and Box keys only.
pub mod string_key_axioms {
use super::*;
pub broadcast axiom fn axiom_string_obeys_key_model()
    ensures #[trigger] obeys_key_model::<String>();
pub broadcast axiom fn axiom_string_eq_by_view(a: String, b: String)
    ensures #[trigger] a@ == #[trigger] b@ ==> a == b;
pub broadcast axiom fn axiom_str_borrow_contains<V>(m: Map<String, V>, k: &str)
    ensures #[trigger] contains_borrowed_key::<String, V, str>(m, k) == (exists|s: String| s@ == k@ && m.contains_key(s));
pub broadcast axiom fn axiom_str_borrow_maps<V>(m: Map<String, V>, k: &str, v: V)
    ensures #[trigger] maps_borrowed_key_to_value::<String, V, str>(m, k, v) == (exists|s: String| s@ == k@ && m.contains_key(s) && m[s] == v);
// ASSUMED: String::from(&str) copies the characters; Bytes::from(&'static str) holds the string's octets
pub broadcast axiom fn axiom_string_from_str_obeys()
    ensures #[trigger] <String as vstd::std_specs::convert::FromSpec<&str>>::obeys_from_spec();
pub broadcast axiom fn axiom_string_from_str(s: &str)
    ensures (#[trigger] <String as vstd::std_specs::convert::FromSpec<&str>>::from_spec(s))@ == s@;
pub broadcast axiom fn axiom_bytes_from_str_obeys()
    ensures #[trigger] <Bytes as vstd::std_specs::convert::FromSpec<&'static str>>::obeys_from_spec();
pub broadcast axiom fn axiom_bytes_from_str(s: &'static str)
    ensures b_view(&(#[trigger] <Bytes as vstd::std_specs::convert::FromSpec<&'static str>>::from_spec(s))) == str_bytes(s);
pub broadcast group group_string_key {
    axiom_string_obeys_key_model, axiom_string_eq_by_view, axiom_str_borrow_contains, axiom_str_borrow_maps,
    axiom_string_from_str, axiom_bytes_from_str, axiom_string_from_str_obeys, axiom_bytes_from_str_obeys,
}
}

/// property `key` of the command is present with a value whose octets are `val`
pub open spec fn prop_is(c: &ZmqCommand, key: &str, val: Seq<u8>) -> bool {
    exists|b: Bytes| maps_borrowed_key_to_value(c.properties@, key, b) && b_view(&b) == val
}
pub open spec fn prop_absent(c: &ZmqCommand, key: &str) -> bool {
    !contains_borrowed_key(c.properties@, key)
}

impl ZmqCommand {
//@ item src/codec/command.rs :: impl ZmqCommand / fn ready
//@ ret r
//@ spec
//@|        ensures
//@|            r.name is READY,
//@|            prop_is(&r, "Socket-Type", socktype_name(socket)),
//@|            forall|k: String| r.properties@.contains_key(k) ==> k@ == "Socket-Type"@,
//@ hint start
//@|        broadcast use string_key_axioms::group_string_key;
//@|        broadcast use vstd::std_specs::hash::group_hash_axioms;
//@ end
}

impl ZmqCommand {
//@ item src/codec/command.rs :: impl ZmqCommand / fn add_properties
//@ ret r
//@ spec
//@|        ensures
//@|            *final(self) == *final(r),
//@|            r.name == old(self).name,
//@|            r.properties@ == old(self).properties@.union_prefer_right(map@),
//@ hint start
//@|        broadcast use axiom_extend_source_hashmap;
//@|        broadcast use string_key_axioms::group_string_key;
//@|        broadcast use vstd::std_specs::hash::group_hash_axioms;
//@ end
}

// =================================================================================
// Handshake skeletons (src/util.rs): async/.await dropped (D2); awaited calls are the
// assumed-contract stubs above.
// =================================================================================
//@ item src/lib.rs :: struct SocketOptions
//@ end

/// Stand-in for `dyn MultiPeerBackend` (src/lib.rs): only the three methods the handshake calls.
/// `peer_connected` REQUIRES the admission evidence: it may only be called with the identity
/// that a successful READY exchange on this very connection produced.
pub trait MultiPeerBackend {
    fn socket_type(&self) -> SocketType;
    fn socket_options(&self) -> &SocketOptions;
    fn peer_connected(self: Arc<Self>, peer_id: &PeerIdentity, io: FramedIo)
        requires handshake_completed(io, *peer_id);
}

/// last item read on this connection
pub open spec fn last_read(io: FramedIo) -> Option<CodecResult<Message>> { io.read_half.log@.last() }

/// the connection has read a valid greeting (version >= 3.0) followed by an admissible READY,
/// and `id` is the identity that READY announced (or a generated one)
pub open spec fn handshake_completed(io: FramedIo, id: PeerIdentity) -> bool {
    let log = io.read_half.log@;
    &&& log.len() >= 2
    &&& greeting_acceptable(log[log.len() - 2])
    &&& exists|local: SocketType| ready_admissible(log.last(), local) && id == ready_identity(log.last())
}

pub open spec fn ready_props(item: Option<CodecResult<Message>>) -> Map<String, Bytes> {
    item->Some_0->Ok_0->Command_0.properties@
}
pub open spec fn is_ready_command(item: Option<CodecResult<Message>>) -> bool {
    item matches Some(Ok(Message::Command(c))) && c.name is READY
}
/// RFC 23: READY must carry Socket-Type, it must be a type the local socket may talk to, and
/// Identity (if any) is at most 255 octets
pub open spec fn ready_admissible(item: Option<CodecResult<Message>>, local: SocketType) -> bool {
    &&& is_ready_command(item)
    &&& exists|b: Bytes, t: SocketType| maps_borrowed_key_to_value(ready_props(item), "Socket-Type", b)
            && b_view(&b) == socktype_name(t) && rfc_compatible(local, t)
    &&& forall|b: Bytes| maps_borrowed_key_to_value(ready_props(item), "Identity", b) ==> b_view(&b).len() <= 255
}
pub open spec fn ready_identity(item: Option<CodecResult<Message>>) -> PeerIdentity {
    if exists|b: Bytes| maps_borrowed_key_to_value(ready_props(item), "Identity", b) {
        let b = choose|b: Bytes| maps_borrowed_key_to_value(ready_props(item), "Identity", b);
        rfc_identity_of(b)->Ok_0
    } else {
        fresh_identity()
    }
}
/// a borrowed `str` key selects at most one value of a String-keyed map
pub proof fn lemma_str_key_functional<V>()
    ensures
        forall|m: Map<String, V>, k: &str, v1: V, v2: V|
            #[trigger] maps_borrowed_key_to_value(m, k, v1) && #[trigger] maps_borrowed_key_to_value(m, k, v2) ==> v1 == v2,
        forall|m: Map<String, V>, k: &str, v: V|
            #[trigger] maps_borrowed_key_to_value(m, k, v) ==> contains_borrowed_key(m, k),
{
    broadcast use string_key_axioms::group_string_key;
    assert forall|m: Map<String, V>, k: &str, v1: V, v2: V|
        #[trigger] maps_borrowed_key_to_value(m, k, v1) && #[trigger] maps_borrowed_key_to_value(m, k, v2) implies v1 == v2 by {
        let s1 = choose|s: String| s@ == k@ && m.contains_key(s) && m[s] == v1;
        let s2 = choose|s: String| s@ == k@ && m.contains_key(s) && m[s] == v2;
        assert(s1@ == s2@);
        assert(s1 == s2);
    }
    assert forall|m: Map<String, V>, k: &str, v: V|
        #[trigger] maps_borrowed_key_to_value(m, k, v) implies contains_borrowed_key(m, k) by {
        let s1 = choose|s: String| s@ == k@ && m.contains_key(s) && m[s] == v;
        assert(s1@ == k@ && m.contains_key(s1));
    }
}
pub proof fn lemma_socktype_name_injective_all()
    ensures forall|a: SocketType, b: SocketType| #[trigger] socktype_name(a) == #[trigger] socktype_name(b) ==> a == b,
{
    assert forall|a: SocketType, b: SocketType| #[trigger] socktype_name(a) == #[trigger] socktype_name(b) implies a == b by {
        lemma_socktype_name_injective(a, b);
    }
}
pub proof fn lemma_socktype_name_injective(a: SocketType, b: SocketType)
    requires socktype_name(a) == socktype_name(b),
    ensures a == b,
{
    let x = socktype_name(a); let y = socktype_name(b);
    assert(x.len() == y.len());
    assert(x[0] == y[0]); assert(x[1] == y[1]); assert(x[2] == y[2]);
    if x.len() > 3 { assert(x[3] == y[3]); }
}

pub open spec fn one_more<T>(w0: Seq<T>, w1: Seq<T>) -> bool {
    w1.len() == w0.len() + 1 && w1.subrange(0, w0.len() as int) =~= w0
}
pub open spec fn sent(io: FramedIo) -> Seq<Message> { io.write_half.sent@ }
pub open spec fn read(io: FramedIo) -> Seq<Option<CodecResult<Message>>> { io.read_half.log@ }
pub open spec fn is_greeting_3_0(m: Message) -> bool {
    m matches Message::Greeting(g) && g.version == (3u8, 0u8)
}
pub open spec fn greeting_acceptable(item: Option<CodecResult<Message>>) -> bool {
    item matches Some(Ok(Message::Greeting(g))) && version_ge_3_0(g.version)
}
/// the READY we send: Socket-Type = our type, plus every configured property (Identity)
pub open spec fn announces(m: Message, local: SocketType, props: Option<HashMap<String, Bytes>>) -> bool {
    &&& m is Command
    &&& m->Command_0.name is READY
    &&& prop_is(&m->Command_0, "Socket-Type", socktype_name(local)) || (props is Some && contains_borrowed_key(props->Some_0@, "Socket-Type"))
    &&& props is Some ==> forall|k: String| props->Some_0@.contains_key(k) ==>
            #[trigger] m->Command_0.properties@.contains_key(k) && m->Command_0.properties@[k] == props->Some_0@[k]
}

//@ item src/util.rs :: fn greet_exchange
//@ ret r
//@ spec
//@|    ensures
//@|        // our greeting goes out first and announces ZMTP 3.0
//@|        sent(*final(raw_socket)) == sent(*old(raw_socket))
//@|            || (one_more(sent(*old(raw_socket)), sent(*final(raw_socket))) && is_greeting_3_0(sent(*final(raw_socket)).last())),
//@|        // if it could not be sent nothing is read and the exchange fails
//@|        sent(*final(raw_socket)) == sent(*old(raw_socket)) ==> r is Err && read(*final(raw_socket)) == read(*old(raw_socket)),
//@|        // otherwise exactly one item is read, and it alone decides
//@|        sent(*final(raw_socket)) != sent(*old(raw_socket)) ==> one_more(read(*old(raw_socket)), read(*final(raw_socket))),
//@|        sent(*final(raw_socket)) != sent(*old(raw_socket)) ==> (r is Ok <==> greeting_acceptable(read(*final(raw_socket)).last())),
//@ end

//@ item src/util.rs :: fn ready_exchange
//@ ret r
//@ closure ".map(|x|"
//@|    |x: &Bytes| -> (res: Result<PeerIdentity, ZmqError>) ensures res == rfc_identity_of(*x)
//@ spec
//@|    ensures
//@|        // READY goes out first and announces the local socket type (and configured properties)
//@|        sent(*final(raw_socket)) == sent(*old(raw_socket))
//@|            || (one_more(sent(*old(raw_socket)), sent(*final(raw_socket))) && announces(sent(*final(raw_socket)).last(), socket_type, props)),
//@|        sent(*final(raw_socket)) == sent(*old(raw_socket)) ==> r is Err && read(*final(raw_socket)) == read(*old(raw_socket)),
//@|        // exactly one item is read and it alone decides admission
//@|        sent(*final(raw_socket)) != sent(*old(raw_socket)) ==> one_more(read(*old(raw_socket)), read(*final(raw_socket))),
//@|        sent(*final(raw_socket)) != sent(*old(raw_socket)) ==> (r is Ok <==> ready_admissible(read(*final(raw_socket)).last(), socket_type)),
//@|        sent(*final(raw_socket)) != sent(*old(raw_socket)) ==> (r matches Ok(id) ==> id == ready_identity(read(*final(raw_socket)).last())),
//@ hint start
//@|        broadcast use string_key_axioms::group_string_key;
//@|        broadcast use vstd::std_specs::hash::group_hash_axioms;
//@|        broadcast use lemma_subrange_full;
//@|        proof { lemma_str_key_functional::<Bytes>(); lemma_socktype_name_injective_all(); }
//@ end

impl vstd::std_specs::convert::FromSpecImpl<PeerIdentity> for Bytes {
    closed spec fn obeys_from_spec() -> bool { true }
    closed spec fn from_spec(p: PeerIdentity) -> Self { p.0 }
}
//@ item src/util.rs :: impl From<PeerIdentity> for Bytes
//@ fn from
//@ ret r
//@ spec
//@|        ensures b_view(&r) == p_id.bytes(),
//@ end

// Registration happens only after both exchanges succeeded, with the identity the READY exchange
// produced and the very FramedIo the exchanges ran on (it is moved into the backend): this is the
// precondition `handshake_completed` of the backend stub, i.e. an obligation at the call site.
// That no call happens on an error path is Rust control flow (`?`) plus the same precondition.
//@ item src/util.rs :: fn peer_connected
//@ name util::peer_connected
//@ ret r
//@ spec
//@|    ensures true,
//@ hint start
//@|        broadcast use string_key_axioms::group_string_key;
//@|        broadcast use vstd::std_specs::hash::group_hash_axioms;
//@ end

} // verus!
// stand-in for the `uuid` crate: only named inside the external_body of PeerIdentity::new
pub struct Uuid([u8; 16]);
impl Uuid {
    pub fn new_v4() -> Self { Uuid([0; 16]) }
    pub fn as_bytes(&self) -> &[u8; 16] { &self.0 }
}
fn main() {}
