// ---- error / identity types shared by the socket units ----
#[verifier::external_body] pub struct Endpoint { _p: u8 }
#[verifier::external_body] pub struct EndpointError { _p: u8 }
#[verifier::external_body] pub struct TaskError { _p: u8 }

//@ item src/error.rs :: type ZmqResult
//@ end
//@ item src/error.rs :: enum ZmqError
//@ end
// `#[from]` on ZmqError::Codec (thiserror) generates this impl; supplied here (D3), verified as written
impl vstd::std_specs::convert::FromSpecImpl<CodecError> for ZmqError {
    open spec fn obeys_from_spec() -> bool { true }
    open spec fn from_spec(e: CodecError) -> Self { ZmqError::Codec(e) }
}
impl From<CodecError> for ZmqError {
    fn from(e: CodecError) -> (r: Self) { ZmqError::Codec(e) }
}

//@ item src/util.rs :: struct PeerIdentity
//@ drop-derive Clone
//@ end
// derive(Clone) dropped (D3): Verus gives derived non-Copy clones no spec; the impl the derive generates
// is written out and verified against the assumed Bytes::clone.
impl Clone for PeerIdentity {
    fn clone(&self) -> (r: Self)
        ensures r == *self,
    { PeerIdentity(self.0.clone()) }
}
/// One abstract value stands for every generated identity: NOTHING is claimed about uniqueness.
pub uninterp spec fn fresh_identity() -> PeerIdentity;
impl PeerIdentity {
    pub closed spec fn bytes(&self) -> Seq<u8> { b_view(&self.0) }
    pub closed spec fn raw(&self) -> Bytes { self.0 }
//@ item src/util.rs :: impl PeerIdentity / const MAX_LENGTH
//@ end
//@ item src/util.rs :: impl PeerIdentity / fn new
//@ attr
//@|    #[verifier::external_body]
//@ ret r
//@ spec
//@|        ensures r == fresh_identity(),
//@ end
}
pub closed spec fn rfc_identity_of(data: Bytes) -> Result<PeerIdentity, ZmqError> {
    if b_view(&data).len() == 0 { Ok(fresh_identity()) }
    else if b_view(&data).len() > 255 { Err(ZmqError::PeerIdentity) }
    else { Ok(PeerIdentity(data)) }
}
pub proof fn lemma_identity_of(data: Bytes)
    ensures
        0 < b_view(&data).len() <= 255 ==> rfc_identity_of(data) is Ok && rfc_identity_of(data)->Ok_0.raw() == data,
        b_view(&data).len() > 255 ==> rfc_identity_of(data) is Err,
{}
impl vstd::std_specs::convert::TryFromSpecImpl<Bytes> for PeerIdentity {
    open spec fn obeys_try_from_spec() -> bool { true }
    open spec fn try_from_spec(v: Bytes) -> Result<Self, ZmqError> { rfc_identity_of(v) }
}
//@ item src/util.rs :: impl TryFrom<Bytes> for PeerIdentity
//@ fn try_from
//@ ret r
//@ spec
//@|        ensures r == rfc_identity_of(data),
//@ end
impl vstd::std_specs::convert::FromSpecImpl<PeerIdentity> for Bytes {
    closed spec fn obeys_from_spec() -> bool { true }
    closed spec fn from_spec(p: PeerIdentity) -> Self { p.0 }
}
//@ item src/util.rs :: impl From<PeerIdentity> for Bytes
//@ fn from
//@ ret r
//@ spec
//@|        ensures r == p_id.raw(),
//@ end
