// Verus unit `routing`: GenericSocketBackend (round robin, registration), ROUTER / DEALER / PUSH / PULL
// skeletons (serves C09 C10 C14)
//@@ state-fields: current_request envelope
#![feature(allocator_api)]
#![allow(unused_imports, dead_code, unused_variables, unused_mut, unused_parens)]
use vstd::prelude::*;
use bytes::{Buf, BufMut, Bytes, BytesMut};
use std::collections::vec_deque::{Iter, VecDeque};
use std::collections::HashMap;
use std::convert::{From, TryFrom, TryInto};
use vstd::std_specs::iter::IteratorSpec;
use std::io::ErrorKind;
verus! {
global size_of usize == 8;
//@@ include prelude/bytes_specs.rs
//@@ include prelude/std_specs.rs
//@@ include prelude/message_items.rs
//@@ include prelude/codec_types.rs
//@@ include prelude/core_types.rs
//@@ include prelude/socket_standins.rs
//@@ include prelude/recv_specs.rs

//@ item src/lib.rs :: enum SocketType
//@ end
//@ item src/lib.rs :: struct SocketOptions
//@ end
//@ item src/codec/framed.rs :: struct FramedIo
//@ end
impl FramedIo {
//@ item src/codec/framed.rs :: impl FramedIo / fn into_parts
//@ ret r
//@ spec
//@|        ensures r.0 == self.read_half, r.1 == self.write_half,
//@ end
}

//@@ consts src/backend.rs
//@@ consts src/router.rs
//@ item src/backend.rs :: struct Peer
//@ end
//@ item src/backend.rs :: struct GenericSocketBackend
//@ end

/// index of the first identity of the rotation that is still in the peer table (q.len() if none)
pub open spec fn first_live<V>(q: Seq<PeerIdentity>, t: Map<PeerIdentity, V>) -> int
    decreases q.len()
{
    if q.len() == 0 { 0 }
    else if t.contains_key(q[0]) { 0 }
    else { 1 + first_live(q.subrange(1, q.len() as int), t) }
}
pub proof fn lemma_first_live_bounds<V>(q: Seq<PeerIdentity>, t: Map<PeerIdentity, V>)
    ensures 0 <= first_live(q, t) <= q.len(),
        first_live(q, t) < q.len() ==> t.contains_key(q[first_live(q, t)]),
        forall|i: int| 0 <= i < first_live(q, t) ==> !t.contains_key(#[trigger] q[i]),
    decreases q.len()
{
    if q.len() > 0 && !t.contains_key(q[0]) {
        let q1 = q.subrange(1, q.len() as int);
        lemma_first_live_bounds(q1, t);
        assert forall|i: int| 0 <= i < first_live(q, t) implies !t.contains_key(#[trigger] q[i]) by {
            if i > 0 { assert(q[i] == q1[i - 1]); }
        }
    }
}
pub open spec fn same_except<V>(t0: Map<PeerIdentity, V>, t1: Map<PeerIdentity, V>, p: PeerIdentity) -> bool {
    &&& t1.dom() =~= t0.dom()
    &&& forall|q: PeerIdentity| t0.contains_key(q) && q != p ==> #[trigger] t1[q] == t0[q]
}
/// which read half the fair queue holds for which identity (None: the socket type has no receive side)
spec fn queued(b: GenericSocketBackend) -> Option<Map<PeerIdentity, ZmqFramedRead>> {
    match b.fair_queue_inner { Some(m) => Some(m.inner.streams@), None => None }
}

/// C16: everything the socket held for peer `p` is gone - the table entry (write half) AND the queued read half - and
/// nothing else has changed
spec fn forgot_peer(b0: GenericSocketBackend, b1: GenericSocketBackend, p: PeerIdentity) -> bool {
    &&& b1.peers@ == b0.peers@.remove(p)
    &&& queued(b0) is None ==> queued(b1) is None
    &&& queued(b0) is Some ==> queued(b1) == Some(queued(b0)->Some_0.remove(p))
}
spec fn untouched(b0: GenericSocketBackend, b1: GenericSocketBackend) -> bool {
    b1.peers@ == b0.peers@ && queued(b1) == queued(b0)
}
impl GenericSocketBackend {
// C01 / C04: a socket announces ITS OWN type: the backend is built with it and hands it out unchanged
//@ item src/backend.rs :: impl GenericSocketBackend / fn with_options
//@ ret r
//@ spec
//@|        ensures
//@|            r.socket_type == socket_type, r.fair_queue_inner == fair_queue_inner, r.socket_options == options,
//@|            r.peers@ == Map::<PeerIdentity, Peer>::empty(), r.round_robin@ == Seq::<PeerIdentity>::empty(),
//@ end
//@ item src/backend.rs :: impl SocketBackend for GenericSocketBackend / fn socket_type
//@ name GenericSocketBackend::socket_type
//@ inherent
//@ ret r
//@ spec
//@|        ensures r == self.socket_type,
//@ end
// C09 / C10: write half stored under, read half queued under, and rotation entered with the SAME identity
//@ item src/backend.rs :: impl MultiPeerBackend for GenericSocketBackend / fn peer_connected
//@ name GenericSocketBackend::peer_connected
//@ inherent
//@ receiver-mut
//@ mutref "&self.fair_queue_inner"
//@ spec
//@|        ensures
//@|            final(self).peers@ == old(self).peers@.insert(*peer_id, Peer { send_queue: io.write_half }),
//@|            final(self).round_robin@ == old(self).round_robin@.push(*peer_id),
//@|            queued(*old(self)) is None ==> queued(*final(self)) is None,
//@|            queued(*old(self)) is Some ==> queued(*final(self)) == Some(queued(*old(self))->Some_0.insert(*peer_id, io.read_half)),
//@ end
//@ item src/backend.rs :: impl MultiPeerBackend for GenericSocketBackend / fn peer_disconnected
//@ name GenericSocketBackend::peer_disconnected
//@ inherent
//@ receiver-mut
//@ mutref "&self.fair_queue_inner"
//@ spec
//@|        ensures
//@|            final(self).peers@ == old(self).peers@.remove(*peer_id),
//@|            final(self).round_robin@ == old(self).round_robin@,
//@|            queued(*old(self)) is None ==> queued(*final(self)) is None,
//@|            queued(*old(self)) is Some ==> queued(*final(self)) == Some(queued(*old(self))->Some_0.remove(*peer_id)),
//@ end

//@ item src/backend.rs :: impl GenericSocketBackend / fn send_round_robin
//@ receiver-mut
//@ attr
//@|    #[verifier::loop_isolation(false)]
//@ ret r
//@ spec
//@|        requires message is Message,
//@|        ensures
//@|            // C10: nobody to send to -> the message comes back intact and nothing is written
//@|            first_live(old(self).round_robin@, old(self).peers@) == old(self).round_robin@.len()
//@|                ==> r is Err && r->Err_0 is ReturnToSender && r->Err_0->ReturnToSender_message.fr() == message->Message_0.fr()
//@|                    && final(self).peers@ == old(self).peers@,
//@|            // otherwise exactly the first live peer of the rotation is written to
//@|            first_live(old(self).round_robin@, old(self).peers@) < old(self).round_robin@.len()
//@|                ==> rr_sent_to(*old(self), *final(self), r, message,
//@|                        old(self).round_robin@[first_live(old(self).round_robin@, old(self).peers@)]),
//@ hint start
//@|        let ghost rr0 = self.round_robin@;
//@|        let ghost t0 = self.peers@;
//@|        proof { lemma_first_live_bounds(rr0, t0); }
//@ loop 1
//@|            invariant
//@|                self.peers@ == t0,
//@|                self.round_robin@.len() <= rr0.len(),
//@|                self.round_robin@ == rr0.subrange(rr0.len() - self.round_robin@.len(), rr0.len() as int),
//@|                first_live(rr0, t0) == (rr0.len() - self.round_robin@.len()) + first_live(self.round_robin@, t0),
//@|            decreases self.round_robin@.len(),
//@ end
}

spec fn rr_sent_to(b0: GenericSocketBackend, b1: GenericSocketBackend, r: ZmqResult<PeerIdentity>, message: Message, p: PeerIdentity) -> bool {
    let t0 = b0.peers@; let t1 = b1.peers@;
    let rr0 = b0.round_robin@;
    let k = first_live(rr0, t0);
    &&& t0.contains_key(p)
    // success: the whole message was written AND flushed to p (send = feed + flush), to p only, and p goes to the back
    &&& r is Ok ==> r->Ok_0 == p && same_except(t0, t1, p)
            && flushed_one(t0[p].send_queue, t1[p].send_queue, message)
            && b1.round_robin@ =~= rr0.subrange(k + 1, rr0.len() as int).push(p)
    // failure: nothing was flushed; that peer is forgotten and leaves the rotation
    &&& r is Err ==> t1 =~= t0.remove(p) && b1.round_robin@ =~= rr0.subrange(k + 1, rr0.len() as int)
}

// =================================================================================
// ROUTER (src/router.rs)
// =================================================================================
//@ item src/router.rs :: struct RouterSocket
//@ end
/// the peer table `t1` is `t0` minus exactly the peers whose connection failed among log[from..to)
pub open spec fn forgot_failed(t0: Map<PeerIdentity, Peer>, t1: Map<PeerIdentity, Peer>, log: Seq<Option<(PeerIdentity, CodecResult<Message>)>>, from: int, to: int) -> bool {
    &&& forall|q: PeerIdentity| #[trigger] t1.contains_key(q) ==> t0.contains_key(q) && t1[q] == t0[q]
    &&& forall|i: int| from <= i < to && failed_item(#[trigger] log[i]) ==> !t1.contains_key(log[i]->Some_0.0)
    &&& forall|q: PeerIdentity| #[trigger] t0.contains_key(q) && !t1.contains_key(q) ==>
            exists|i: int| from <= i < to && failed_item(#[trigger] log[i]) && log[i]->Some_0.0 == q
}

impl RouterSocket {
//@ item src/router.rs :: impl SocketRecv for RouterSocket / fn recv
//@ name RouterSocket::recv
//@ inherent
//@ attr
//@|    #[verifier::loop_isolation(false)]
//@|    #[verifier::exec_allows_no_decreases_clause]
//@ ret r
//@ spec
//@|        ensures
//@|            router_received(*old(self), *final(self), r),
//@ hint start
//@|        broadcast use group_push;
//@ loopbody 1
//@|            broadcast use group_push;
//@ loop 1
//@|            invariant
//@|                self.fair_queue.log@.len() >= old(self).fair_queue.log@.len(),
//@|                self.fair_queue.log@.subrange(0, old(self).fair_queue.log@.len() as int) =~= old(self).fair_queue.log@,
//@|                // everything consumed so far was completely dealt with: skipped by design, or a failed
//@|                // connection whose peer has been forgotten
//@|                forall|i: int| old(self).fair_queue.log@.len() <= i < self.fair_queue.log@.len() ==>
//@|                    skipped_item(#[trigger] self.fair_queue.log@[i]) || failed_item(self.fair_queue.log@[i]),
//@|                forgot_failed(old(self).backend.peers@, self.backend.peers@, self.fair_queue.log@, old(self).fair_queue.log@.len() as int, self.fair_queue.log@.len() as int),
//@|                self.backend.round_robin@ == old(self).backend.round_robin@,
//@ await *
//@|        forall|i: int| old(self).fair_queue.log@.len() <= i < self.fair_queue.log@.len() ==>
//@|            skipped_item(#[trigger] self.fair_queue.log@[i]) || failed_item(self.fair_queue.log@[i])
//@ end

//@ item src/router.rs :: impl SocketSend for RouterSocket / fn send
//@ name RouterSocket::send
//@ inherent
//@ ret r
//@ spec
//@|        requires message.fr().len() >= 2,
//@|        ensures
//@|            router_sent(*old(self), *final(self), r, message.fr()),
//@ hint start
//@|        proof { lemma_identity_of(message.fr()[0]); }
//@ end
}

spec fn router_received(s0: RouterSocket, s1: RouterSocket, r: ZmqResult<ZmqMessage>) -> bool {
    let l0 = s0.fair_queue.log@; let l1 = s1.fair_queue.log@;
    let last = l1.last();
    &&& l1.len() > l0.len() && l1.subrange(0, l0.len() as int) =~= l0
    &&& forall|i: int| l0.len() <= i < l1.len() - 1 ==> skipped_item(#[trigger] l1[i]) || failed_item(l1[i])
    &&& forgot_failed(s0.backend.peers@, s1.backend.peers@, l1, l0.len() as int, l1.len() - 1)
    // C09: the message is labelled with the identity of the connection it arrived on, frames unmodified
    &&& r is Ok <==> message_item(last)
    &&& r is Ok ==> r->Ok_0.fr() =~= seq![last->Some_0.0.raw()] + last->Some_0.1->Ok_0->Message_0.fr()
    &&& r is Err ==> last is None
}
spec fn router_sent(s0: RouterSocket, s1: RouterSocket, r: ZmqResult<()>, frames: Seq<Bytes>) -> bool {
    let t0 = s0.backend.peers@; let t1 = s1.backend.peers@;
    let idr = rfc_identity_of(frames[0]);
    // first frame is not a legal identity (empty handled as "generated": never in the table by assumption; > 255: error)
    &&& idr is Err ==> r is Err && t1 == t0
    &&& idr is Ok ==> {
            let p = idr->Ok_0;
            // C09: no such peer -> the send fails and nothing is written to any connection
            &&& !t0.contains_key(p) ==> r is Err && t1 == t0
            // otherwise the message minus its first frame goes to exactly that peer
            &&& t0.contains_key(p) ==> same_except(t0, t1, p)
                    && (r is Ok ==> flushed_one(t0[p].send_queue, t1[p].send_queue, t1[p].send_queue.sent@.last())
                            && t1[p].send_queue.sent@.last() is Message
                            && t1[p].send_queue.sent@.last()->Message_0.fr() =~= frames.subrange(1, frames.len() as int))
                    && (r is Err ==> t1[p].send_queue.sent@ == t0[p].send_queue.sent@)
        }
}

// =================================================================================
// DEALER / PUSH / PULL
// =================================================================================
//@ item src/dealer.rs :: struct DealerSocket
//@ end
//@ item src/push.rs :: struct PushSocket
//@ end
//@ item src/pull.rs :: struct PullSocket
//@ end

impl DealerSocket {
//@ item src/dealer.rs :: impl SocketSend for DealerSocket / fn send
//@ name DealerSocket::send
//@ inherent
//@ ret r
//@ spec
//@|        ensures rr_socket_sent(*old(self).backend, *final(self).backend, r, message),
//@ end
//@ item src/dealer.rs :: impl SocketRecv for DealerSocket / fn recv
//@ name DealerSocket::recv
//@ inherent
//@ attr
//@|    #[verifier::loop_isolation(false)]
//@|    #[verifier::exec_allows_no_decreases_clause]
//@ ret r
//@ spec
//@|        ensures plain_received(old(self).fair_queue.log@, final(self).fair_queue.log@, r),
//@|            // C16: the peer whose failure this call reports is forgotten completely; otherwise nothing changes
//@|            failed_item(final(self).fair_queue.log@.last()) ==> forgot_peer(*old(self).backend, *final(self).backend, final(self).fair_queue.log@.last()->Some_0.0),
//@|            !failed_item(final(self).fair_queue.log@.last()) ==> untouched(*old(self).backend, *final(self).backend),
//@ loop 1
//@|            invariant
//@|                self.fair_queue.log@.len() >= old(self).fair_queue.log@.len(),
//@|                self.fair_queue.log@.subrange(0, old(self).fair_queue.log@.len() as int) =~= old(self).fair_queue.log@,
//@|                forall|i: int| old(self).fair_queue.log@.len() <= i < self.fair_queue.log@.len() ==> skipped_item(#[trigger] self.fair_queue.log@[i]),
//@|                untouched(*old(self).backend, *self.backend),
//@ await *
//@|        forall|i: int| old(self).fair_queue.log@.len() <= i < self.fair_queue.log@.len() ==> skipped_item(#[trigger] self.fair_queue.log@[i])
//@ end
}
impl PushSocket {
//@ item src/push.rs :: impl SocketSend for PushSocket / fn send
//@ name PushSocket::send
//@ inherent
//@ ret r
//@ spec
//@|        ensures rr_socket_sent(*old(self).backend, *final(self).backend, r, message),
//@ end
}
impl PullSocket {
//@ item src/pull.rs :: impl SocketRecv for PullSocket / fn recv
//@ name PullSocket::recv
//@ inherent
//@ attr
//@|    #[verifier::loop_isolation(false)]
//@|    #[verifier::exec_allows_no_decreases_clause]
//@ ret r
//@ spec
//@|        ensures plain_received(old(self).fair_queue.log@, final(self).fair_queue.log@, r),
//@|            failed_item(final(self).fair_queue.log@.last()) ==> forgot_peer(*old(self).backend, *final(self).backend, final(self).fair_queue.log@.last()->Some_0.0),
//@|            !failed_item(final(self).fair_queue.log@.last()) ==> untouched(*old(self).backend, *final(self).backend),
//@ loop 1
//@|            invariant
//@|                self.fair_queue.log@.len() >= old(self).fair_queue.log@.len(),
//@|                self.fair_queue.log@.subrange(0, old(self).fair_queue.log@.len() as int) =~= old(self).fair_queue.log@,
//@|                forall|i: int| old(self).fair_queue.log@.len() <= i < self.fair_queue.log@.len() ==> skipped_item(#[trigger] self.fair_queue.log@[i]),
//@|                untouched(*old(self).backend, *self.backend),
//@ await *
//@|        forall|i: int| old(self).fair_queue.log@.len() <= i < self.fair_queue.log@.len() ==> skipped_item(#[trigger] self.fair_queue.log@[i])
//@ end
}

// =================================================================================
// SUB / XPUB recv (for C14's await-invariants; the subscription bookkeeping itself is C11/C13: not applicable)
// =================================================================================
/// stand-ins for the two backends: only what recv calls (ASSUMED effects)
pub struct SubSocketBackend { pub peers: scc::HashMap<PeerIdentity, Peer> }
impl SubSocketBackend {
    #[verifier::external_body]
    pub fn peer_disconnected(&mut self, peer_id: &PeerIdentity)
        ensures final(self).peers@ == old(self).peers@.remove(*peer_id),
    { unimplemented!() }
}
pub struct XPubSocketBackend { pub peers: scc::HashMap<PeerIdentity, Peer> }
impl XPubSocketBackend {
    #[verifier::external_body]
    pub fn peer_disconnected(&mut self, peer_id: &PeerIdentity)
        ensures final(self).peers@ == old(self).peers@.remove(*peer_id),
    { unimplemented!() }
    // subscription tracking (scc entry mutation, iter().position(closure)): outside both tools; touches no peer entry
    #[verifier::external_body]
    pub fn message_received(&mut self, peer_id: &PeerIdentity, message: Message)
        ensures final(self).peers@ == old(self).peers@,
    { unimplemented!() }
}
//@ item src/sub.rs :: struct SubSocket
//@ end
//@ item src/xpub.rs :: struct XPubSocket
//@ end
impl SubSocket {
//@ item src/sub.rs :: impl SocketRecv for SubSocket / fn recv
//@ name SubSocket::recv
//@ inherent
//@ attr
//@|    #[verifier::loop_isolation(false)]
//@|    #[verifier::exec_allows_no_decreases_clause]
//@ ret r
//@ spec
//@|        ensures plain_received(old(self).fair_queue.log@, final(self).fair_queue.log@, r),
//@ loop 1
//@|            invariant
//@|                self.fair_queue.log@.len() >= old(self).fair_queue.log@.len(),
//@|                self.fair_queue.log@.subrange(0, old(self).fair_queue.log@.len() as int) =~= old(self).fair_queue.log@,
//@|                forall|i: int| old(self).fair_queue.log@.len() <= i < self.fair_queue.log@.len() ==> skipped_item(#[trigger] self.fair_queue.log@[i]),
//@ await *
//@|        forall|i: int| old(self).fair_queue.log@.len() <= i < self.fair_queue.log@.len() ==> skipped_item(#[trigger] self.fair_queue.log@[i])
//@ end
}
impl XPubSocket {
//@ item src/xpub.rs :: impl SocketRecv for XPubSocket / fn recv
//@ name XPubSocket::recv
//@ inherent
//@ attr
//@|    #[verifier::loop_isolation(false)]
//@|    #[verifier::exec_allows_no_decreases_clause]
//@ ret r
//@ spec
//@|        ensures plain_received(old(self).fair_queue.log@, final(self).fair_queue.log@, r),
//@ loop 1
//@|            invariant
//@|                self.fair_queue.log@.len() >= old(self).fair_queue.log@.len(),
//@|                self.fair_queue.log@.subrange(0, old(self).fair_queue.log@.len() as int) =~= old(self).fair_queue.log@,
//@|                forall|i: int| old(self).fair_queue.log@.len() <= i < self.fair_queue.log@.len() ==> skipped_item(#[trigger] self.fair_queue.log@[i]),
//@ await *
//@|        forall|i: int| old(self).fair_queue.log@.len() <= i < self.fair_queue.log@.len() ==> skipped_item(#[trigger] self.fair_queue.log@[i])
//@ end
}

/// C10 at the socket API: the application's message is handed back intact when nobody is connected,
/// otherwise exactly the first live peer of the rotation gets the whole message (flushed) and rotates
spec fn rr_socket_sent(b0: GenericSocketBackend, b1: GenericSocketBackend, r: ZmqResult<()>, m: ZmqMessage) -> bool {
    let k = first_live(b0.round_robin@, b0.peers@);
    &&& k == b0.round_robin@.len() ==> r is Err && r->Err_0 is ReturnToSender && r->Err_0->ReturnToSender_message.fr() == m.fr() && b1.peers@ == b0.peers@
    &&& k < b0.round_robin@.len() ==> {
            let p = b0.round_robin@[k];
            &&& b0.peers@.contains_key(p)
            &&& r is Ok ==> same_except(b0.peers@, b1.peers@, p)
                    && flushed_one(b0.peers@[p].send_queue, b1.peers@[p].send_queue, Message::Message(m))
                    && b1.round_robin@ =~= b0.round_robin@.subrange(k + 1, b0.round_robin@.len() as int).push(p)
            &&& r is Err ==> b1.peers@ =~= b0.peers@.remove(p)
        }
}
// ---- constructors: which type each socket announces (C01 / C04) ----
impl RouterSocket {
//@ item src/router.rs :: impl Socket for RouterSocket / fn with_options
//@ name RouterSocket::with_options
//@ inherent
//@ ret r
//@ spec
//@|        ensures r.backend.socket_type is ROUTER, r.backend.peers@ == Map::<PeerIdentity, Peer>::empty(), r.backend.round_robin@.len() == 0,
//@ end
}
impl DealerSocket {
//@ item src/dealer.rs :: impl Socket for DealerSocket / fn with_options
//@ name DealerSocket::with_options
//@ inherent
//@ ret r
//@ spec
//@|        ensures r.backend.socket_type is DEALER, r.backend.peers@ == Map::<PeerIdentity, Peer>::empty(), r.backend.round_robin@.len() == 0,
//@ end
}
impl PushSocket {
//@ item src/push.rs :: impl Socket for PushSocket / fn with_options
//@ name PushSocket::with_options
//@ inherent
//@ ret r
//@ spec
//@|        ensures r.backend.socket_type is PUSH, r.backend.peers@ == Map::<PeerIdentity, Peer>::empty(), r.backend.round_robin@.len() == 0,
//@ end
}
impl PullSocket {
//@ item src/pull.rs :: impl Socket for PullSocket / fn with_options
//@ name PullSocket::with_options
//@ inherent
//@ ret r
//@ spec
//@|        ensures r.backend.socket_type is PULL, r.backend.peers@ == Map::<PeerIdentity, Peer>::empty(), r.backend.round_robin@.len() == 0,
//@ end
}

// ---- C16 corollary: once forgotten, never chosen ----
// ---- C05 corollary at the socket API: successive recv calls hand over exactly the message items, in queue order ----
pub type QItem = Option<(PeerIdentity, CodecResult<Message>)>;
/// the frame sequences of the message items of a queue log, in log order
pub open spec fn msgs_of(log: Seq<QItem>) -> Seq<Seq<Bytes>>
    decreases log.len()
{
    if log.len() == 0 { Seq::empty() } else {
        let d = msgs_of(log.drop_last());
        if message_item(log.last()) { d.push(log.last()->Some_0.1->Ok_0->Message_0.fr()) } else { d }
    }
}
/// the frame sequences of the Ok results of a sequence of recv calls, in call order
pub open spec fn ok_frames(rs: Seq<ZmqResult<ZmqMessage>>) -> Seq<Seq<Bytes>>
    decreases rs.len()
{
    if rs.len() == 0 { Seq::empty() } else {
        let d = ok_frames(rs.drop_last());
        if rs.last() is Ok { d.push(rs.last()->Ok_0.fr()) } else { d }
    }
}
/// a history of recv calls on one DEALER / PULL / SUB / XPUB socket: logs[i] --rs[i]--> logs[i+1]
pub open spec fn recv_trace(logs: Seq<Seq<QItem>>, rs: Seq<ZmqResult<ZmqMessage>>) -> bool {
    &&& logs.len() == rs.len() + 1
    &&& forall|i: int| 0 <= i < rs.len() ==> plain_received(#[trigger] logs[i], logs[i + 1], rs[i])
}
/// items the receivers skip by design contribute no message
pub proof fn lemma_recv_trace_skip(l: Seq<QItem>, n: int)
    requires 0 <= n <= l.len(), forall|i: int| n <= i < l.len() ==> skipped_item(#[trigger] l[i]),
    ensures msgs_of(l) == msgs_of(l.subrange(0, n)),
    decreases l.len() - n
{
    if n == l.len() {
        assert(l.subrange(0, n) =~= l);
    } else {
        let m = l.drop_last();
        assert(skipped_item(l[l.len() - 1]));
        assert forall|i: int| n <= i < m.len() implies skipped_item(#[trigger] m[i]) by { assert(m[i] == l[i]); }
        lemma_recv_trace_skip(m, n);
        assert(m.subrange(0, n) =~= l.subrange(0, n));
    }
}
/// one call: the log grows by skipped items and one last item; a message is handed over iff that item is one
pub proof fn lemma_recv_trace_step(l0: Seq<QItem>, l1: Seq<QItem>, r: ZmqResult<ZmqMessage>)
    requires plain_received(l0, l1, r),
    ensures msgs_of(l1) == (if r is Ok { msgs_of(l0).push(r->Ok_0.fr()) } else { msgs_of(l0) }),
{
    let m = l1.drop_last();
    assert forall|i: int| l0.len() <= i < m.len() implies skipped_item(#[trigger] m[i]) by { assert(m[i] == l1[i]); }
    lemma_recv_trace_skip(m, l0.len() as int);
    assert(m.subrange(0, l0.len() as int) =~= l0);
}
/// Exactly once and in order at the socket API: over any history of recv calls, the messages returned (Ok results,
/// in call order) are exactly the message items the queue yielded during that history, in queue order - no message
/// item is skipped, none is returned twice, none overtakes another, and nothing that is not a message item is returned.
pub proof fn lemma_recv_trace_exactly_once_in_order(logs: Seq<Seq<QItem>>, rs: Seq<ZmqResult<ZmqMessage>>)
    requires recv_trace(logs, rs),
    ensures msgs_of(logs.last()) == msgs_of(logs[0]) + ok_frames(rs),
    decreases rs.len()
{
    if rs.len() == 0 {
        assert(logs.last() == logs[0]);
        assert(msgs_of(logs[0]) + Seq::<Seq<Bytes>>::empty() =~= msgs_of(logs[0]));
    } else {
        let n = rs.len() as int;
        let lg = logs.drop_last(); let rr = rs.drop_last();
        assert forall|i: int| 0 <= i < rr.len() implies plain_received(#[trigger] lg[i], lg[i + 1], rr[i]) by {
            assert(lg[i] == logs[i] && lg[i + 1] == logs[i + 1] && rr[i] == rs[i]);
        }
        lemma_recv_trace_exactly_once_in_order(lg, rr);
        assert(lg[0] == logs[0] && lg.last() == logs[n - 1] && logs.last() == logs[n]);
        assert(plain_received(logs[n - 1], logs[n], rs[n - 1]));
        lemma_recv_trace_step(logs[n - 1], logs[n], rs[n - 1]);
        let base = msgs_of(logs[0]); let d = ok_frames(rr);
        if rs.last() is Ok {
            assert((base + d).push(rs.last()->Ok_0.fr()) =~= base + d.push(rs.last()->Ok_0.fr()));
        }
    }
}

/// "once the socket has observed the end no later send is routed to that peer": the round robin writes to
/// `q[first_live(q, t)]`, which is in the table `t` (lemma_first_live_bounds); a forgotten peer is not in the table any
/// more, so whatever the rotation queue still contains, the peer a later send chooses is a different one.
pub proof fn lemma_forgotten_not_chosen(q: Seq<PeerIdentity>, t0: Map<PeerIdentity, Peer>, p: PeerIdentity)
    ensures
        first_live(q, t0.remove(p)) < q.len() ==> q[first_live(q, t0.remove(p))] != p,
{
    lemma_first_live_bounds(q, t0.remove(p));
}

// ---- C10 corollary: strict rotation ----
/// the rotation after one successful send when the first identity is live: it moves to the back
pub open spec fn rotate(q: Seq<PeerIdentity>) -> Seq<PeerIdentity> { q.subrange(1, q.len() as int).push(q[0]) }
pub open spec fn rotate_n(q: Seq<PeerIdentity>, k: nat) -> Seq<PeerIdentity>
    decreases k
{ if k == 0 { q } else { rotate(rotate_n(q, (k - 1) as nat)) } }
/// With a stable set of n live peers (every identity of the queue is in the table), the k-th of n consecutive
/// successful sends goes to the k-th identity of the queue: n consecutive sends reach the n (distinct) peers, each
/// exactly once, and the queue is back where it started.  (`rr_sent_to` says each send picks `q[first_live]` = `q[0]`
/// here and leaves `rotate(q)`.)
pub proof fn lemma_rotation_strict(q: Seq<PeerIdentity>, k: nat)
    requires k <= q.len(), q.len() > 0,
    ensures
        rotate_n(q, k) =~= q.subrange(k as int, q.len() as int) + q.subrange(0, k as int),
        k < q.len() ==> rotate_n(q, k)[0] == q[k as int],
        k == q.len() ==> rotate_n(q, k) =~= q,
    decreases k
{
    if k > 0 {
        lemma_rotation_strict(q, (k - 1) as nat);
        let r = rotate_n(q, (k - 1) as nat);
        assert(r =~= q.subrange(k - 1, q.len() as int) + q.subrange(0, k - 1));
        assert(r[0] == q[k - 1]);
        assert(rotate(r) =~= q.subrange(k as int, q.len() as int) + q.subrange(0, k as int));
    }
}
pub proof fn lemma_rotation_first_live_is_head<V>(q: Seq<PeerIdentity>, t: Map<PeerIdentity, V>)
    requires q.len() > 0, t.contains_key(q[0]),
    ensures first_live(q, t) == 0,
{}

} // verus!
pub struct Uuid([u8; 16]);
impl Uuid {
    pub fn new_v4() -> Self { Uuid([0; 16]) }
    pub fn as_bytes(&self) -> &[u8; 16] { &self.0 }
}
fn main() {}
