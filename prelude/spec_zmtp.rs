// ===================================================================================
// ZMTP 3.0 wire format as pure specification functions, written from RFC 23
// (https://rfc.zeromq.org/spec/23/), NOT from the code.
//   frame      = short-size | long-size
//   short-size = flags(1) size(1) body          -- body of 0..=255 octets
//   long-size  = flags(1) size(8, network order) body
//   flags      : bit0 MORE, bit1 LONG, bit2 COMMAND
// ===================================================================================
pub struct SFlags { pub command: bool, pub long: bool, pub more: bool }

pub open spec fn rfc_flags(more: bool, long: bool, command: bool) -> u8 {
    ((if more { 1int } else { 0int }) + (if long { 2int } else { 0int }) + (if command { 4int } else { 0int })) as u8
}
pub open spec fn rfc_flags_of(b: u8) -> SFlags {
    SFlags { command: (b & 4u8) != 0, long: (b & 2u8) != 0, more: (b & 1u8) != 0 }
}
pub open spec fn rfc_frame(body: Seq<u8>, more: bool, command: bool) -> Seq<u8> {
    if body.len() <= 255 {
        seq![rfc_flags(more, false, command), body.len() as u8] + body
    } else {
        seq![rfc_flags(more, true, command)] + be64(body.len() as u64) + body
    }
}
/// wire image of a multipart message: MORE on every frame but the last
pub open spec fn rfc_msg(frames: Seq<Seq<u8>>) -> Seq<u8>
    decreases frames.len()
{
    if frames.len() == 0 { Seq::<u8>::empty() }
    else { rfc_frame(frames[0], frames.len() > 1, false) + rfc_msg(frames.subrange(1, frames.len() as int)) }
}

// ---- greeting (RFC 23: signature 0xFF pad(8) 0x7F, version, mechanism(20, NUL padded), as-server, filler(31)) ----
pub open spec fn nul_padded(name: Seq<u8>, width: nat) -> Seq<u8> {
    name + Seq::new((width - name.len()) as nat, |i: int| 0u8)
}
pub open spec fn rfc_greeting(major: u8, minor: u8, mech: Seq<u8>, as_server: bool) -> Seq<u8> {
    seq![0xffu8] + Seq::new(8, |i: int| 0u8) + seq![0x7fu8, major, minor]
        + nul_padded(mech, 20) + seq![if as_server { 1u8 } else { 0u8 }] + Seq::new(31, |i: int| 0u8)
}

// ---- abstract, resumable stream decoder ----
pub enum SItem {
    Greeting(Seq<u8>),        // the 64 greeting octets
    Command(Seq<u8>),         // body of a command frame
    Message(Seq<Seq<u8>>),    // bodies of the frames of one (multipart) message
}
pub enum DPhase { Greeting, Header, Len(SFlags), Body(SFlags, nat) }
pub struct DAbs { pub phase: DPhase, pub partial: Seq<Seq<u8>> }
pub enum Step {
    NeedMore(DAbs, Seq<u8>),       // nothing more can be decided: state reached, bytes still pending
    Item(SItem, DAbs, Seq<u8>),    // one item, state after it, bytes still pending
    Error,
}
pub open spec fn phase_rank(p: DPhase) -> nat {
    match p { DPhase::Body(_, _) => 1, _ => 0 }
}
// rfc_greeting_ok(g) / rfc_command_ok(body): RFC validity of a greeting block / a command body,
// defined by the unit that includes this file.

pub open spec fn rfc_step(st: DAbs, buf: Seq<u8>) -> Step
    decreases buf.len(), phase_rank(st.phase)
{
    match st.phase {
        DPhase::Greeting =>
            if buf.len() < 64 { Step::NeedMore(st, buf) }
            else if !rfc_greeting_ok(buf.subrange(0, 64)) { Step::Error }
            else { Step::Item(SItem::Greeting(buf.subrange(0, 64)), DAbs { phase: DPhase::Header, partial: st.partial }, buf.subrange(64, buf.len() as int)) },
        DPhase::Header =>
            if buf.len() < 1 { Step::NeedMore(st, buf) }
            else { rfc_step(DAbs { phase: DPhase::Len(rfc_flags_of(buf[0])), partial: st.partial }, buf.subrange(1, buf.len() as int)) },
        DPhase::Len(f) =>
            if f.long {
                if buf.len() < 8 { Step::NeedMore(st, buf) }
                else { rfc_step(DAbs { phase: DPhase::Body(f, be64_val(buf.subrange(0, 8)) as nat), partial: st.partial }, buf.subrange(8, buf.len() as int)) }
            } else {
                if buf.len() < 1 { Step::NeedMore(st, buf) }
                else { rfc_step(DAbs { phase: DPhase::Body(f, buf[0] as nat), partial: st.partial }, buf.subrange(1, buf.len() as int)) }
            },
        DPhase::Body(f, n) =>
            if buf.len() < n { Step::NeedMore(st, buf) }
            else {
                let body = buf.subrange(0, n as int);
                let rest = buf.subrange(n as int, buf.len() as int);
                if f.command {
                    if rfc_command_ok(body) { Step::Item(SItem::Command(body), DAbs { phase: DPhase::Header, partial: st.partial }, rest) }
                    else { Step::Error }
                } else if f.more {
                    rfc_step(DAbs { phase: DPhase::Header, partial: st.partial.push(body) }, rest)
                } else {
                    Step::Item(SItem::Message(st.partial.push(body)), DAbs { phase: DPhase::Header, partial: Seq::empty() }, rest)
                }
            },
    }
}
