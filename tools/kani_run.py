"""Run Kani harnesses (compiled into the real crate through the cfg(kani) hook) and parse results."""
import os
import re
import subprocess
import sys
import time
from dataclasses import dataclass, field
from typing import List, Optional

VERIF = os.path.dirname(os.path.dirname(os.path.abspath(__file__)))
HARNESS_FILE = os.path.join(VERIF, 'kani', 'harnesses.rs')
TARGET = os.path.join(VERIF, '.cache', 'kani-target')


@dataclass
class HarnessResult:
    name: str
    status: str = 'missing'        # ok | failed | undecided | missing
    checks: int = 0
    failed: int = 0
    covers_ok: int = 0
    covers_total: int = 0
    time_s: float = 0.0
    failed_checks: List[str] = field(default_factory=list)
    reason: str = ''
    raw: str = ''
    playback: str = ''


def run(harnesses: List[str], repo: str = '/repo', jobs: int = 8, timeout: int = 1800, extra: List[str] = None,
        playback: bool = False):
    """returns (dict name -> HarnessResult, wall_s, cmd, build_error)"""
    env = dict(os.environ, CARGO_NET_OFFLINE='true', ZEROMQ_VERIF_KANI=HARNESS_FILE, CARGO_TARGET_DIR=TARGET)
    env.pop('RUSTUP_TOOLCHAIN', None)
    cmd = ['cargo', 'kani', '-Z', 'stubbing', '--output-format', 'terse', '-j', str(max(1, min(jobs, len(harnesses))))]
    if playback:
        cmd += ['-Z', 'concrete-playback', '--concrete-playback=print']
    for h in harnesses:
        cmd += ['--exact', '--harness', '__verif_kani::' + h]
    if extra:
        cmd += extra
    t0 = time.time()
    res = {h: HarnessResult(h) for h in harnesses}
    import signal
    def limit():
        # a CBMC run that needs more than this is abandoned (undecided) instead of taking the machine down
        import resource
        gb = int(os.environ.get('VERIF_KANI_MEM_GB', '24'))
        resource.setrlimit(resource.RLIMIT_AS, (gb << 30, gb << 30))
    proc = subprocess.Popen(cmd, cwd=repo, env=env, stdout=subprocess.PIPE, stderr=subprocess.PIPE, text=True, start_new_session=True, preexec_fn=limit)
    try:
        so, se = proc.communicate(timeout=timeout)
        out = so + '\n' + se
    except subprocess.TimeoutExpired:
        # kill the whole process group: cargo-kani -> kani-driver -> cbmc would otherwise survive as orphans
        try:
            os.killpg(proc.pid, signal.SIGKILL)
        except Exception:
            pass
        try:
            proc.communicate(timeout=10)
        except Exception:
            pass
        for h in res.values():
            h.status = 'undecided'; h.reason = 'kani timed out after %ds' % timeout
        return res, time.time() - t0, ' '.join(cmd), None
    wall = time.time() - t0
    build_error = None
    if re.search(r'error(\[E\d+\])?: ', out) and 'Checking harness' not in out:
        build_error = '\n'.join(l for l in out.split('\n') if re.search(r'error|-->', l))[:3000]
    # split the output per harness.  With -j the blocks are prefixed "Thread N: "
    blocks = {}
    cur = {}
    for line in out.split('\n'):
        m = re.match(r'(?:Thread (\d+): )?Checking harness (\S+?)\.\.\.', line)
        if m:
            cur[m.group(1) or '0'] = m.group(2).split('::')[-1]
            blocks.setdefault(cur[m.group(1) or '0'], [])
            continue
        m = re.match(r'Thread (\d+): ?(.*)', line)
        if m:
            last_thread = m.group(1)
            cur['_last'] = cur.get(last_thread)
            if cur.get(last_thread):
                blocks[cur[last_thread]].append(m.group(2))
            continue
        tgt = cur.get('_last') or cur.get('0')
        if tgt:
            blocks[tgt].append(line)
    for name, lines in blocks.items():
        if name not in res:
            continue
        h = res[name]
        txt = '\n'.join(lines)
        h.raw = txt[-6000:]
        m = re.search(r'\*\* (\d+) of (\d+) failed', txt)
        if m:
            h.failed, h.checks = int(m.group(1)), int(m.group(2))
        m = re.search(r'\*\* (\d+) of (\d+) cover properties satisfied', txt)
        if m:
            h.covers_ok, h.covers_total = int(m.group(1)), int(m.group(2))
        m = re.search(r'Verification Time: ([0-9.]+)s', txt)
        if m:
            h.time_s = float(m.group(1))
        h.failed_checks = re.findall(r'Failed Checks: (.*)', txt)
        if 'VERIFICATION:- SUCCESSFUL' in txt:
            if h.covers_total and h.covers_ok < h.covers_total:
                h.status = 'undecided'; h.reason = 'vacuity guard: %d of %d cover properties unsatisfied' % (h.covers_total - h.covers_ok, h.covers_total)
            else:
                h.status = 'ok'
        elif 'VERIFICATION:- FAILED' in txt:
            real = [c for c in h.failed_checks if not re.search(r'unwinding assertion|not currently supported|unsupported', c)]
            if re.search(r'unwinding assertion', txt) and not real:
                h.status = 'undecided'; h.reason = 'unwinding bound too small'
            elif re.search(r'not currently supported by Kani|UNSUPPORTED', txt) and not real:
                h.status = 'undecided'; h.reason = 'construct unsupported by Kani reachable'
            elif real:
                h.status = 'failed'
            else:
                h.status = 'undecided'; h.reason = 'kani failed without a property failure'
        else:
            h.status = 'undecided'; h.reason = 'no verdict in kani output'
        if playback:
            m = re.search(r'Concrete playback unit test.*?```\n?(.*?)```', txt, re.S)
            if m:
                h.playback = m.group(1)
            else:
                m = re.search(r'(#\[test\]\s*fn kani_concrete_playback.*?\n\})', txt, re.S)
                if m:
                    h.playback = m.group(1)
    for h in res.values():
        if h.status == 'missing':
            h.status = 'undecided'
            h.reason = 'harness did not run' + ((': ' + build_error[:400]) if build_error else '')
    return res, wall, ' '.join(cmd), build_error


if __name__ == '__main__':
    r, wall, cmd, be = run(sys.argv[1:])
    print(cmd)
    for h in r.values():
        print(h.name, h.status, h.checks, h.failed, h.covers_ok, h.covers_total, h.time_s, h.reason, h.failed_checks)
    if be:
        print(be)
    print('%.1fs' % wall)
