#!/usr/bin/env python3
"""seeded changes (independent sub-agents): confirm them, import them under /verif/seeded/, run the checks on them

  tools/seeded.py confirm /tmp/seed_C07/SEED_OUT/A /tmp/seed_C07     # re-verify demo/patch/suite in that worktree
  tools/seeded.py import  /tmp/seed_C07/SEED_OUT/A C07-A             # copy into /verif/seeded/C07-A/
  tools/seeded.py detect  [ids..]                                    # apply each patch to a scratch worktree, run the checks
"""
import glob, json, os, re, shutil, subprocess, sys, tempfile, time
import concurrent.futures as cf
HERE = os.path.dirname(os.path.abspath(__file__))
VERIF = os.path.dirname(HERE)
ALL = ['C01', 'C02', 'C03', 'C04', 'C05', 'C07', 'C08', 'C09', 'C10', 'C11', 'C13', 'C14', 'C16']


def sh(cmd, cwd=None, timeout=3000, env=None):
    r = subprocess.run(cmd, shell=True, cwd=cwd, capture_output=True, text=True, timeout=timeout, env=env)
    return r.returncode, r.stdout + r.stderr


def clean(wt):
    sh('git checkout -q -- . && git clean -fdq -e SEED_OUT -e target', wt)


def confirm(src, wt):
    meta = json.load(open(os.path.join(src, 'meta.json')))
    demo_cmd = meta['demo_command']
    demo_cmd = re.sub(r'^cd \S+ && ', '', demo_cmd)
    res = {'src': src, 'demo_command': demo_cmd}
    clean(wt)
    c, o = sh('git apply %s/demo.diff' % src, wt)
    if c:
        res['error'] = 'demo.diff does not apply: ' + o[-300:]; return res
    c, o = sh(demo_cmd, wt)
    res['demo_on_clean_tree'] = 'pass' if c == 0 else 'FAIL'
    res['demo_clean_tail'] = o[-400:]
    c, o = sh('git apply %s/patch.diff' % src, wt)
    if c:
        res['error'] = 'patch.diff does not apply: ' + o[-300:]; clean(wt); return res
    c, o = sh(demo_cmd, wt)
    res['demo_with_patch'] = 'fail (as required)' if c != 0 else 'PASSES (change not demonstrated)'
    res['demo_patch_tail'] = o[-600:]
    # the existing suite with the patch only
    clean(wt)
    sh('git apply %s/patch.diff' % src, wt)
    c, o = sh('cargo test --workspace --no-fail-fast --offline 2>&1 | grep -E "^test result|FAILED|failed"', wt)
    res['suite_with_patch'] = [l for l in o.split('\n') if l.strip()][:20]
    res['suite_ok'] = ('FAILED' not in o and 'failed;' in o and not re.search(r'[1-9]\d* failed', o))
    clean(wt)
    res['confirmed'] = res['demo_on_clean_tree'] == 'pass' and res['demo_with_patch'].startswith('fail') and res['suite_ok']
    return res


def do_import(src, sid, confirm_res=None):
    dst = os.path.join(VERIF, 'seeded', sid)
    os.makedirs(dst, exist_ok=True)
    for f in ('patch.diff', 'demo.diff', 'meta.json'):
        shutil.copy(os.path.join(src, f), os.path.join(dst, f))
    if confirm_res:
        json.dump(confirm_res, open(os.path.join(dst, 'confirmation.json'), 'w'), indent=1)
    print('imported', sid)


_BASE_TEXT = {}


def unit_text(u, repo):
    sys.path.insert(0, HERE)
    import extract
    try:
        return extract.build_unit(u, repo, VERIF).render()[0]
    except Exception as e:
        return 'EXTRACTION FAILED: %r' % (e,)


def unchanged_for(p, wt):
    """True if every unit of property p generates, from the patched tree, exactly the text it generates from /repo:
    the check's Verus verdict is then that of the unchanged tree (the Kani harnesses read the whole crate, so this
    shortcut is only taken when VERIF_KANI is off)"""
    import props as P
    for u in P.PROPS[p]['units']:
        if u not in _BASE_TEXT:
            _BASE_TEXT[u] = unit_text(u, '/repo')
        if _BASE_TEXT[u].startswith('EXTRACTION FAILED') or unit_text(u, wt) != _BASE_TEXT[u]:
            return False
    return True


def detect_one(sid, props=None, base='seeded'):
    d = os.path.join(VERIF, base, sid)
    meta = json.load(open(os.path.join(d, 'meta.json')))
    pid = meta['property']
    tmp = tempfile.mkdtemp(prefix='zmq-seeded-', dir='/var/tmp')
    wt = os.path.join(tmp, 'repo')
    out = {'id': sid, 'property': pid, 'checks': {}}
    try:
        for attempt in range(8):
            # concurrent `git worktree add` calls contend for a lock in /repo/.git: retry
            wr = subprocess.run(['git', '-C', '/repo', 'worktree', 'add', '-q', '--detach', wt, 'HEAD'], capture_output=True)
            if wr.returncode == 0:
                break
            time.sleep(0.5 + attempt)
        else:
            raise RuntimeError('git worktree add failed: ' + wr.stderr.decode()[:300])
        c, o = sh('git apply %s/patch.diff' % d, wt)
        if c:
            out['error'] = 'patch does not apply to /repo HEAD: ' + o[-300:]
            return out
        for p in (props or [pid]):
            if base == 'seeded_harmless' and os.environ.get('SEEDED_KANI', 'on') == 'off' and unchanged_for(p, wt):
                out['checks'][p] = {'exit': 0, 'lines': [], 'wall_s': 0.0, 'skipped': 'every unit of this check generates the same text as from the unchanged tree'}
                continue
            env = dict(os.environ, VERIF_REPO=wt, VERIF_EVIDENCE_DIR=os.path.join(tmp, 'evidence'), VERIF_REPLAY_DIR=os.path.join(tmp, 'replay'),
                       VERIF_WORK_DIR=os.path.join(tmp, 'work'))
            if os.environ.get('SEEDED_KANI', 'on') == 'off':
                env['VERIF_KANI'] = 'off'
            t0 = time.time()
            r = subprocess.run([os.path.join(VERIF, 'check'), p, 'quick'], capture_output=True, text=True, env=env, timeout=3000)
            lines = [l for l in (r.stdout + r.stderr).split('\n') if l.startswith(('VIOLATION', 'UNDECIDED', 'KNOWN'))]
            out['checks'][p] = {'exit': r.returncode, 'lines': [l[:400] for l in lines[:6]], 'wall_s': round(time.time() - t0, 1)}
        own = out['checks'].get(pid, {})
        out['detected'] = own.get('exit') == 1
        out['detected_by'] = [p for p, v in out['checks'].items() if v['exit'] == 1]
        return out
    finally:
        subprocess.run(['git', '-C', '/repo', 'worktree', 'remove', '--force', wt], capture_output=True)
        shutil.rmtree(tmp, ignore_errors=True)


def write_harmless_summary(base):
    rows = []
    for i in sorted(os.listdir(base)):
        f = os.path.join(base, i, 'result.json')
        if not os.path.isfile(f):
            continue
        r = json.load(open(f))
        meta = json.load(open(os.path.join(base, i, 'meta.json')))
        codes = {p: v['exit'] for p, v in r.get('checks', {}).items()}
        rows.append('| %s | %s | %s | %s | %s | %s |' % (i, meta.get('kind', ''), re.sub(r'\s+', ' ', meta.get('description', ''))[:150].replace('|', '/'),
                    ' '.join(p for p, c in codes.items() if c == 0), ' '.join(p for p, c in codes.items() if c == 2) or '-',
                    ' '.join(p for p, c in codes.items() if c == 1) or '-'))
    n_alarm = sum(1 for x in rows if not x.rstrip().endswith('| - |'))
    with open(os.path.join(base, 'SUMMARY.md'), 'w') as fh:
        fh.write('# Behaviour-preserving edits: every claimed property\'s quick check on each\n\n')
        fh.write('%d edits, %d with a false alarm (exit 1).  exit 2 = undecided (the edit leaves the subset / the anchors of the contracts).\n\n' % (len(rows), n_alarm))
        fh.write('| id | kind | edit | exit 0 | exit 2 (undecided) | exit 1 (FALSE ALARM) |\n|---|---|---|---|---|---|\n')
        fh.write('\n'.join(rows) + '\n')


def main(a):
    if a[0] == 'confirm':
        r = confirm(a[1], a[2])
        print(json.dumps(r, indent=1))
        return 0 if r.get('confirmed') else 1
    if a[0] == 'import':
        cr = json.load(open(a[3])) if len(a) > 3 else None
        do_import(a[1], a[2], cr); return 0
    if a[0] == 'import-harmless':
        # tools/seeded.py import-harmless /tmp/seed_C07/SEED_OUT/H1 C07-H1
        dst = os.path.join(VERIF, 'seeded_harmless', a[2])
        os.makedirs(dst, exist_ok=True)
        for f in ('patch.diff', 'meta.json'):
            shutil.copy(os.path.join(a[1], f), os.path.join(dst, f))
        print('imported', a[2]); return 0
    if a[0] == 'harmless':
        # behaviour-preserving edits: run EVERY claimed property's quick check on each; exit 1 anywhere is a false alarm
        base = os.path.join(VERIF, 'seeded_harmless')
        ids = a[1:] or sorted(os.listdir(base))
        ids = [i for i in ids if os.path.isdir(os.path.join(base, i))]
        bad = 0
        with cf.ThreadPoolExecutor(max_workers=int(os.environ.get('SEEDED_JOBS', '3'))) as ex:
            # SEEDED_PROPS=C05,C14 restricts the run to those checks and MERGES into the stored result (used after a change
            # that can only affect some checks); the default is every claimed property
            sel = [p for p in os.environ.get('SEEDED_PROPS', '').split(',') if p] or ALL
            def one(i):
                r = detect_one(i, sel, 'seeded_harmless')
                if sel != ALL:
                    try:
                        prev = json.load(open(os.path.join(base, i, 'result.json')))
                        merged = dict(prev.get('checks', {})); merged.update(r.get('checks', {})); r['checks'] = merged
                    except Exception:
                        pass
                return r
            for r in ex.map(one, ids):
                codes = {p: v['exit'] for p, v in r.get('checks', {}).items()}
                r['false_alarm'] = [p for p, c in codes.items() if c == 1]
                r['undecided'] = [p for p, c in codes.items() if c == 2]
                r.pop('detected', None); r.pop('detected_by', None)
                json.dump(r, open(os.path.join(base, r['id'], 'result.json'), 'w'), indent=1)
                bad += len(r['false_alarm'])
                print('%-8s own=%s FALSE-ALARM=%s undecided=%s %s' % (r['id'], r['property'], r['false_alarm'], r['undecided'], r.get('error', '')), flush=True)
                for p in r['false_alarm']:
                    for l in r['checks'][p]['lines'][:3]:
                        print('      ', p, l[:260])
        write_harmless_summary(base)
        return 1 if bad else 0
    if a[0] == 'detect':
        ids = a[1:] or sorted(os.listdir(os.path.join(VERIF, 'seeded')))
        ids = [i for i in ids if os.path.isdir(os.path.join(VERIF, 'seeded', i))]
        allp = os.environ.get('SEEDED_ALL_PROPS') == '1'
        with cf.ThreadPoolExecutor(max_workers=int(os.environ.get('SEEDED_JOBS', '3'))) as ex:
            for r in ex.map(lambda i: detect_one(i, ALL if allp else None), ids):
                json.dump(r, open(os.path.join(VERIF, 'seeded', r['id'], 'detection.json'), 'w'), indent=1)
                print('%-8s %-4s detected=%s by=%s %s' % (r['id'], r['property'], r.get('detected'), r.get('detected_by'), r.get('error', '')))
                for p, v in r.get('checks', {}).items():
                    for l in v['lines'][:3]:
                        print('      ', p, v['exit'], l[:200])
        return 0


if __name__ == '__main__':
    sys.exit(main(sys.argv[1:]))
