// =================================================================================
// Stand-ins (ASSUMED contracts) for what the socket skeletons call but do not verify.
// Interior mutability (scc, crossbeam, Arc) is modelled as plain ownership: `Arc<T>` is
// `Box<T>` here and the containers take `&mut self`  ==> "no other task touches the
// backend during one call" (the sequential-scope assumption of C07-C10, C14).
// =================================================================================
pub type Arc<T> = Box<T>;

pub trait FrameableRead {}
pub trait FrameableWrite {}
pub struct ZmqCodec { _p: u8 }

/// asynchronous-codec FramedRead: `next` may yield ANY item (peer controlled); ghost log of yielded items
pub struct FramedRead<T, U> { pub log: Ghost<Seq<Option<CodecResult<Message>>>>, pub _t: core::marker::PhantomData<(T, U)> }
/// asynchronous-codec FramedWrite / futures SinkExt: `feed` only buffers, `flush` puts the buffered items on the
/// wire, `send` = feed + flush.  Ghost logs: `sent` = flushed (on the wire), `pending` = buffered only.
pub struct FramedWrite<T, U> { pub sent: Ghost<Seq<Message>>, pub pending: Ghost<Seq<Message>>, pub tried: Ghost<nat>, pub _t: core::marker::PhantomData<(T, U)> }
impl<T, U> FramedRead<T, U> {
    #[verifier::external_body]
    pub fn next(&mut self) -> (r: Option<CodecResult<Message>>)
        ensures final(self).log@ == old(self).log@.push(r),
    { unimplemented!() }
}
impl<T, U> FramedWrite<T, U> {
    /// `tried` counts the send / feed calls made on this writer, successful or not
    #[verifier::external_body]
    pub fn send(&mut self, item: Message) -> (r: Result<(), CodecError>)
        ensures
            final(self).tried@ == old(self).tried@ + 1,
            r is Ok ==> final(self).sent@ == old(self).sent@ + old(self).pending@.push(item) && final(self).pending@ == Seq::<Message>::empty(),
            r is Err ==> final(self).sent@ == old(self).sent@,
    { unimplemented!() }
    #[verifier::external_body]
    pub fn feed(&mut self, item: Message) -> (r: Result<(), CodecError>)
        ensures
            final(self).tried@ == old(self).tried@ + 1,
            final(self).sent@ == old(self).sent@,
            r is Ok ==> final(self).pending@ == old(self).pending@.push(item),
    { unimplemented!() }
    #[verifier::external_body]
    pub fn flush(&mut self) -> (r: Result<(), CodecError>)
        ensures
            final(self).tried@ == old(self).tried@,
            r is Ok ==> final(self).sent@ == old(self).sent@ + old(self).pending@ && final(self).pending@ == Seq::<Message>::empty(),
            r is Err ==> final(self).sent@ == old(self).sent@,
    { unimplemented!() }
}
/// by the time the call returned, everything buffered before plus `m` is on the wire, nothing is left buffered
pub open spec fn flushed_one<T, U>(w0: FramedWrite<T, U>, w1: FramedWrite<T, U>, m: Message) -> bool {
    w1.sent@ =~= w0.sent@ + w0.pending@.push(m) && w1.pending@.len() == 0
}
//@ item src/codec/framed.rs :: type ZmqFramedRead
//@ end
//@ item src/codec/framed.rs :: type ZmqFramedWrite
//@ end
pub mod asynchronous_codec { pub use super::{FramedRead, FramedWrite}; }

/// fair queue over the read halves: `next` yields ANY (peer, item) pair, or None; ghost log
pub struct FairQueue<S, K> { pub log: Ghost<Seq<Option<(K, CodecResult<Message>)>>>, pub _t: core::marker::PhantomData<S> }
impl<S, K> FairQueue<S, K> {
    /// a new queue has yielded nothing and holds no stream (the sharing of `inner` between the queue and the backend
    /// is NOT modelled: the backend gets its own empty stream map)
    #[verifier::external_body]
    pub fn new(block_on_no_clients: bool) -> (r: Self)
        ensures r.log@ == Seq::<Option<(K, CodecResult<Message>)>>::empty(),
    { unimplemented!() }
    #[verifier::external_body]
    pub fn inner(&self) -> (r: Arc<Mutex<QueueInner<S, K>>>)
        ensures r.inner.streams@ == Map::<K, S>::empty(),
    { unimplemented!() }
    #[verifier::external_body]
    pub fn next(&mut self) -> (r: Option<(K, CodecResult<Message>)>)
        ensures final(self).log@ == old(self).log@.push(r),
    { unimplemented!() }
}
/// the fair queue's stream map (shared with the backend through Arc<Mutex<..>>): which read half is
/// registered under which identity
pub struct QueueInner<S, K> { pub streams: Ghost<Map<K, S>> }
impl<S, K> QueueInner<S, K> {
    #[verifier::external_body]
    pub fn insert(&mut self, k: K, s: S)
        ensures final(self).streams@ == old(self).streams@.insert(k, s),
    { unimplemented!() }
    #[verifier::external_body]
    pub fn remove(&mut self, k: &K)
        ensures final(self).streams@ == old(self).streams@.remove(*k),
    { unimplemented!() }
}
/// parking_lot::Mutex as plain ownership (sequential scope): lock() is a mutable borrow of the content
pub struct Mutex<T> { pub inner: T }
impl<T> Mutex<T> {
    pub fn new(t: T) -> (r: Self)
        ensures r.inner == t,
    { Mutex { inner: t } }
    #[verifier::external_body]
    pub fn lock(&mut self) -> (r: &mut T)
        ensures *r == old(self).inner, final(self).inner == *final(r),
    { unimplemented!() }
}
/// the monitor event enum: only the variant the verified code constructs
pub enum SocketEvent { Disconnected(PeerIdentity), Other }
pub struct AcceptStopHandle { _p: u8 }
pub mod mpsc {
    pub struct Sender<T> { pub _t: core::marker::PhantomData<T> }
    impl<T> Sender<T> {
        // best-effort notification of the monitor: result ignored by the callers
        #[verifier::external_body]
        pub fn try_send(&mut self, v: T) -> Result<(), ()> { unimplemented!() }
    }
}

/// crossbeam SegQueue as a FIFO sequence
#[verifier::external_body]
#[verifier::accept_recursive_types(T)]
pub struct SegQueue<T> { _t: core::marker::PhantomData<T> }
impl<T> SegQueue<T> {
    pub uninterp spec fn view(&self) -> Seq<T>;
    #[verifier::external_body]
    pub fn new() -> (r: Self)
        ensures r@ == Seq::<T>::empty(),
    { unimplemented!() }
    #[verifier::external_body]
    pub fn pop(&mut self) -> (r: Option<T>)
        ensures
            old(self)@.len() == 0 ==> r is None && final(self)@ == old(self)@,
            old(self)@.len() > 0 ==> r == Some(old(self)@[0]) && final(self)@ == old(self)@.subrange(1, old(self)@.len() as int),
    { unimplemented!() }
    #[verifier::external_body]
    pub fn push(&mut self, v: T)
        ensures final(self)@ == old(self)@.push(v),
    { unimplemented!() }
}

/// scc::HashMap as a map; `get_async(&k)` yields a mutable reference to the entry for exactly `k`
pub mod scc {
    use super::*;
    #[verifier::external_body]
    #[verifier::accept_recursive_types(K)]
    #[verifier::accept_recursive_types(V)]
    pub struct HashMap<K, V> { _t: core::marker::PhantomData<(K, V)> }
    impl<K, V> HashMap<K, V> {
        pub uninterp spec fn view(&self) -> Map<K, V>;
        #[verifier::external_body]
        pub fn new() -> (r: Self)
            ensures r@ == Map::<K, V>::empty(),
        { unimplemented!() }
        #[verifier::external_body]
        pub fn clear_sync(&mut self)
            ensures final(self)@ == Map::<K, V>::empty(),
        { unimplemented!() }
        #[verifier::external_body]
        pub fn get_async(&mut self, k: &K) -> (r: Option<&mut V>)
            ensures
                r is None ==> !old(self)@.contains_key(*k) && final(self)@ == old(self)@,
                r matches Some(w) ==> old(self)@.contains_key(*k) && *w == old(self)@[*k]
                    && final(self)@ == old(self)@.insert(*k, *final(w)),
        { unimplemented!() }
        #[verifier::external_body]
        pub fn get_sync(&mut self, k: &K) -> (r: Option<&mut V>)
            ensures
                r is None ==> !old(self)@.contains_key(*k) && final(self)@ == old(self)@,
                r matches Some(w) ==> old(self)@.contains_key(*k) && *w == old(self)@[*k]
                    && final(self)@ == old(self)@.insert(*k, *final(w)),
        { unimplemented!() }
        #[verifier::external_body]
        pub fn upsert_async(&mut self, k: K, v: V)
            ensures final(self)@ == old(self)@.insert(k, v),
        { unimplemented!() }
        #[verifier::external_body]
        pub fn remove_sync(&mut self, k: &K)
            ensures final(self)@ == old(self)@.remove(*k),
        { unimplemented!() }
        /// scc: removes the entry and hands it to the caller
        #[verifier::external_body]
        pub fn remove_async(&mut self, k: &K) -> (r: Option<(K, V)>)
            ensures
                final(self)@ == old(self)@.remove(*k),
                !old(self)@.contains_key(*k) ==> r is None,
                old(self)@.contains_key(*k) ==> r == Some((*k, old(self)@[*k])),
        { unimplemented!() }
        /// scc: inserts only if the key is absent; an occupied key is left alone and the pair comes back in Err
        #[verifier::external_body]
        pub fn insert_async(&mut self, k: K, v: V) -> (r: Result<(), (K, V)>)
            ensures
                !old(self)@.contains_key(k) ==> r is Ok && final(self)@ == old(self)@.insert(k, v),
                old(self)@.contains_key(k) ==> r is Err && final(self)@ == old(self)@,
        { unimplemented!() }
        /// scc: first occupied entry of a traversal that visits every entry exactly once (in an order of scc's choosing)
        #[verifier::external_body]
        pub fn begin_async(&mut self) -> (r: Option<OccupiedEntry<'_, K, V>>)
            ensures
                r is None ==> old(self)@.dom() =~= Set::<K>::empty() && *final(self) == *old(self),
                r matches Some(e) ==> *e.map == *old(self) && *final(e.map) == *final(self) && e.idx@ == 0 && e.wf(),
        { unimplemented!() }
    }
    /// `order` enumerates the key set `dom` without repetition
    pub open spec fn enumerates<K>(order: Seq<K>, dom: Set<K>) -> bool {
        order.no_duplicates() && forall|k: K| dom.contains(k) <==> order.contains(k)
    }
    /// scc::hash_map::OccupiedEntry during a `begin_async` / `next_async` traversal: a cursor that holds the map
    /// (exclusively, like the real entry holds its bucket lock), the traversal order scc chose (ghost) and the
    /// position in it.  What the code does to the entry through DerefMut is a change of the map at that key; when the
    /// traversal ends (`next_async` returns None, or the entry is dropped) the map is what the entries left behind.
    pub struct OccupiedEntry<'a, K, V> { pub map: &'a mut HashMap<K, V>, pub order: Ghost<Seq<K>>, pub idx: Ghost<int> }
    impl<'a, K, V> OccupiedEntry<'a, K, V> {
        pub open spec fn wf(&self) -> bool {
            enumerates(self.order@, self.map@.dom()) && 0 <= self.idx@ < self.order@.len()
        }
        pub open spec fn k(&self) -> K { self.order@[self.idx@] }
        pub open spec fn val(&self) -> V { self.map@[self.k()] }
        #[verifier::external_body]
        pub fn key(&self) -> (r: &K)
            ensures self.wf() ==> *r == self.k(),
        { unimplemented!() }
        #[verifier::external_body]
        pub fn next_async(self) -> (r: Option<OccupiedEntry<'a, K, V>>)
            requires self.wf(),
            ensures
                r matches Some(n) ==> *n.map == *old(self.map) && *final(n.map) == *final(self.map) && n.order == self.order && n.idx@ == self.idx@ + 1 && n.wf(),
                r is None ==> *final(self.map) == *old(self.map) && self.idx@ + 1 == self.order@.len(),
        { unimplemented!() }
    }
    impl<'a, K, V> core::ops::Deref for OccupiedEntry<'a, K, V> {
        type Target = V;
        #[verifier::external_body]
        fn deref(&self) -> (r: &V)
            ensures self.wf() ==> *r == self.val(),
        { unimplemented!() }
    }
    impl<'a, K, V> core::ops::DerefMut for OccupiedEntry<'a, K, V> {
        #[verifier::external_body]
        fn deref_mut(&mut self) -> (r: &mut V)
            ensures old(self).wf() ==> *r == old(self).val()
                && final(self).order == old(self).order && final(self).idx == old(self).idx
                && final(self).map@ == old(self).map@.insert(old(self).k(), *final(r))
                && *final(final(self).map) == *final(old(self).map),
        { unimplemented!() }
    }
}
