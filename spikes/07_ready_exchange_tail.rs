use vstd::prelude::*;
use bytes::{Bytes};
use std::collections::HashMap;
use std::convert::{TryFrom, TryInto};
verus! {
global size_of usize == 8;
#[verifier::external_type_specification]
#[verifier::external_body]
pub struct ExBytes(Bytes);
pub uninterp spec fn b_view(b: &Bytes) -> Seq<u8>;
pub assume_specification[ <Bytes as Clone>::clone ](b: &Bytes) -> (r: Bytes)
    ensures r == *b;
pub assume_specification[ <Bytes as core::ops::Deref>::deref ](b: &Bytes) -> (r: &[u8])
    ensures r@ == b_view(b);
pub assume_specification[ Bytes::len ](b: &Bytes) -> (r: usize)
    ensures r == b_view(b).len();
pub assume_specification[ Bytes::is_empty ](b: &Bytes) -> (r: bool)
    ensures r == (b_view(b).len() == 0);

pub assume_specification<T, E> [Option::<Result<T, E>>::transpose] (o: Option<Result<T, E>>) -> (r: Result<Option<T>, E>)
    ensures o is None ==> r == Ok::<Option<T>, E>(None),
            o matches Some(Ok(v)) ==> r == Ok::<Option<T>, E>(Some(v)),
            o matches Some(Err(e)) ==> r == Err::<Option<T>, E>(e);
pub enum CodecError { Decode(&'static str) }
pub enum ZmqError {
    Codec(CodecError),
    Other(&'static str),
    PeerIdentity,
}
pub type ZmqResult<T> = Result<T, ZmqError>;
pub type CodecResult<T> = Result<T, CodecError>;
impl From<CodecError> for ZmqError {
    fn from(e: CodecError) -> Self { ZmqError::Codec(e) }
}

pub struct PeerIdentity(Bytes);
impl PeerIdentity {
    pub const MAX_LENGTH: usize = 255;
    #[verifier::external_body]
    pub fn new() -> Self { unimplemented!() }
}
impl Default for PeerIdentity {
    fn default() -> Self {
        Self::new()
    }
}
impl vstd::std_specs::convert::TryFromSpecImpl<Bytes> for PeerIdentity {
    open spec fn obeys_try_from_spec() -> bool { false }
    open spec fn try_from_spec(v: Bytes) -> Result<Self, ZmqError> { arbitrary() }
}
impl TryFrom<Bytes> for PeerIdentity {
    type Error = ZmqError;

    fn try_from(data: Bytes) -> Result<Self, ZmqError> {
        if data.is_empty() {
            Ok(Self::new())
        } else if data.len() > Self::MAX_LENGTH {
            Err(ZmqError::PeerIdentity)
        } else {
            Ok(Self(data))
        }
    }
}

#[derive(Clone, Copy, PartialEq, Eq)]
pub enum SocketType { PAIR = 0, PUB = 1 }
impl SocketType {
    #[verifier::external_body]
    pub fn compatible(&self, other: SocketType) -> bool { true }
    #[verifier::external_body]
    pub fn try_from(s: &[u8]) -> Result<Self, ZmqError> { unimplemented!() }
}
#[derive(Copy, Clone)]
pub enum ZmqCommandName { READY }
pub struct ZmqCommand {
    pub name: ZmqCommandName,
    pub properties: HashMap<String, Bytes>,
}
pub struct ZmqGreeting { pub v: u8 }
pub struct ZmqMessage { pub v: u8 }
pub enum Message {
    Greeting(ZmqGreeting),
    Command(ZmqCommand),
    Message(ZmqMessage),
}

fn ready_tail(ready_repl: Option<CodecResult<Message>>, socket_type: SocketType) -> ZmqResult<PeerIdentity> {
    match ready_repl {
        Some(Ok(Message::Command(command))) => match command.name {
            ZmqCommandName::READY => {
                let other_sock_type = match command.properties.get("Socket-Type") {
                    Some(s) => SocketType::try_from(&s[..])?,
                    None => Err(ZmqError::Other("Failed to parse other socket type"))?,
                };

                let peer_id = command
                    .properties
                    .get("Identity")
                    .map(|x| x.clone().try_into())
                    .transpose()?
                    .unwrap_or_default();

                if socket_type.compatible(other_sock_type) {
                    Ok(peer_id)
                } else {
                    Err(ZmqError::Other(
                        "Provided sockets combination is not compatible",
                    ))
                }
            }
        },
        Some(Ok(_)) => Err(ZmqError::Other("Failed to confirm ready state")),
        Some(Err(e)) => Err(e.into()),
        None => Err(ZmqError::Other("No reply from server")),
    }
}

} // verus!
fn main() {}
