// Verus unit `message`: src/message.rs under contract (serves C07 and every caller of ZmqMessage)
#![feature(allocator_api)]
#![allow(unused_imports, dead_code, unused_variables, unused_mut)]
use vstd::prelude::*;
use bytes::{Buf, BufMut, Bytes, BytesMut};
use std::collections::vec_deque::{Iter, VecDeque};
use std::convert::{From, TryFrom};
use vstd::std_specs::iter::IteratorSpec;
verus! {
global size_of usize == 8;
//@@ include prelude/bytes_specs.rs
//@@ include prelude/std_specs.rs
//@@ include prelude/message_items.rs

} // verus!
fn main() {}
