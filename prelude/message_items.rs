// ---- ZmqMessage (src/message.rs): real items, contracts over the Seq view ----
//@ item src/message.rs :: struct ZmqMessage
//@ drop-derive Clone
//@ end
// derive(Clone) dropped (D3): Verus gives derived non-Copy clones no spec; the impl the derive generates is written
// out and verified against vstd's VecDeque::clone and the assumed Bytes::clone.
impl Clone for ZmqMessage {
    fn clone(&self) -> (r: Self)
        ensures r.fr() == self.fr(),
    {
        let r = ZmqMessage { frames: self.frames.clone() };
        proof { assert(r.frames@ =~= self.frames@); }
        r
    }
}

pub open spec fn frames_view(s: Seq<Bytes>) -> Seq<Seq<u8>> {
    s.map_values(|b: Bytes| b_view(&b))
}
pub mod fv_lemmas {
use super::*;
pub broadcast proof fn lemma_frames_view_push(s: Seq<Bytes>, b: Bytes)
    ensures #[trigger] frames_view(s.push(b)) == frames_view(s).push(b_view(&b)),
{
    assert(frames_view(s.push(b)) =~= frames_view(s).push(b_view(&b)));
}
pub broadcast proof fn lemma_frames_view_one(b: Bytes)
    ensures #[trigger] frames_view(seq![b]) == seq![b_view(&b)],
{
    assert(frames_view(seq![b]) =~= seq![b_view(&b)]);
}
pub broadcast proof fn lemma_frames_view_empty()
    ensures #[trigger] frames_view(Seq::<Bytes>::empty()) == Seq::<Seq<u8>>::empty(),
{
    assert(frames_view(Seq::<Bytes>::empty()) =~= Seq::<Seq<u8>>::empty());
}
pub broadcast proof fn lemma_frames_view_add(a: Seq<Bytes>, b: Seq<Bytes>)
    ensures #[trigger] frames_view(a + b) == frames_view(a) + frames_view(b),
{
    assert(frames_view(a + b) =~= frames_view(a) + frames_view(b));
}
pub broadcast proof fn lemma_frames_view_subrange(a: Seq<Bytes>, i: int, j: int)
    requires 0 <= i <= j <= a.len(),
    ensures #[trigger] frames_view(a.subrange(i, j)) == frames_view(a).subrange(i, j),
{
    assert(frames_view(a.subrange(i, j)) =~= frames_view(a).subrange(i, j));
}
pub broadcast group group_frames_view {
    lemma_frames_view_push, lemma_frames_view_one, lemma_frames_view_empty, lemma_frames_view_add, lemma_frames_view_subrange,
}
}

impl ZmqMessage {
    /// the frames as exec values
    pub closed spec fn fr(&self) -> Seq<Bytes> { self.frames@ }
    /// the frame bodies
    pub open spec fn bodies(&self) -> Seq<Seq<u8>> { frames_view(self.fr()) }

//@ item src/message.rs :: impl ZmqMessage / fn push_back
//@ spec
//@|        ensures final(self).fr() == old(self).fr().push(frame),
//@ end
//@ item src/message.rs :: impl ZmqMessage / fn push_front
//@ spec
//@|        ensures final(self).fr() == seq![frame] + old(self).fr(),
//@ end
//@ item src/message.rs :: impl ZmqMessage / fn pop_front
//@ ret r
//@ spec
//@|        ensures
//@|            old(self).fr().len() == 0 ==> r is None && final(self).fr() == old(self).fr(),
//@|            old(self).fr().len() > 0 ==> r == Some(old(self).fr()[0]) && final(self).fr() == old(self).fr().subrange(1, old(self).fr().len() as int),
//@ end
//@ item src/message.rs :: impl ZmqMessage / fn len
//@ ret r
//@ spec
//@|        ensures r == self.fr().len(),
//@ end
//@ item src/message.rs :: impl ZmqMessage / fn is_empty
//@ ret r
//@ spec
//@|        ensures r == (self.fr().len() == 0),
//@ end
//@ item src/message.rs :: impl ZmqMessage / fn get
//@ ret r
//@ spec
//@|        ensures
//@|            index < self.fr().len() ==> r == Some(&self.fr()[index as int]),
//@|            index >= self.fr().len() ==> r is None,
//@ end
//@ item src/message.rs :: impl ZmqMessage / fn iter
//@ only-if-not STUB_ITER
//@ ret r
//@ spec
//@|        ensures r.remaining() == self.fr().as_ref(), r.decrease() is Some,
//@ end
//@ item src/message.rs :: impl ZmqMessage / fn into_vecdeque
//@ ret r
//@ spec
//@|        ensures r@ == self.fr(),
//@ end
//@ item src/message.rs :: impl ZmqMessage / fn prepend
//@ stub-if STUB_ITER
//@ spec
//@|        ensures final(self).fr() == message.fr() + old(self).fr(),
//@ loop 1 it
//@|            invariant
//@|                it.seq() =~= message.fr().as_ref().reverse(),
//@|                0 <= it.index() <= message.fr().len(),
//@|                self.fr() =~= message.fr().subrange(message.fr().len() - it.index(), message.fr().len() as int) + old(self).fr(),
//@ end
//@ item src/message.rs :: impl ZmqMessage / fn split_off
//@ ret r
//@ spec
//@|        requires at <= old(self).fr().len(),
//@|        ensures
//@|            final(self).fr() == old(self).fr().subrange(0, at as int),
//@|            r.fr() == old(self).fr().subrange(at as int, old(self).fr().len() as int),
//@ end
}
