use vstd::prelude::*;
use bytes::{Buf, BufMut, Bytes, BytesMut};
use std::convert::TryFrom;
use std::collections::VecDeque;
verus! {
global size_of usize == 8;

#[verifier::external_type_specification]
#[verifier::external_body]
pub struct ExBytesMut(BytesMut);

#[verifier::external_type_specification]
#[verifier::external_body]
pub struct ExBytes(Bytes);

#[verifier::external_trait_specification]
#[verifier::external_trait_extension(BufSpec via BufSpecImpl)]
pub trait ExBuf {
    type ExternalTraitSpecificationFor: Buf;
    spec fn bview(&self) -> Seq<u8>;
    fn get_u8(&mut self) -> (r: u8)
        requires old(self).bview().len() >= 1
        ensures r == old(self).bview()[0], final(self).bview() == old(self).bview().subrange(1, old(self).bview().len() as int);
    fn get_u64(&mut self) -> (r: u64)
        requires old(self).bview().len() >= 8
        ensures final(self).bview() == old(self).bview().subrange(8, old(self).bview().len() as int);
}

pub uninterp spec fn bm_view(b: &BytesMut) -> Seq<u8>;
pub uninterp spec fn b_view(b: &Bytes) -> Seq<u8>;

impl BufSpecImpl for BytesMut {
    open spec fn bview(&self) -> Seq<u8> { bm_view(self) }
}

pub assume_specification[ BytesMut::len ](b: &BytesMut) -> (r: usize)
    ensures r == bm_view(b).len();
pub assume_specification[ BytesMut::reserve ](b: &mut BytesMut, additional: usize)
    ensures bm_view(final(b)) == bm_view(old(b));
pub assume_specification[ BytesMut::split_to ](b: &mut BytesMut, at: usize) -> (r: BytesMut)
    requires at <= bm_view(old(b)).len()
    ensures bm_view(&r) == bm_view(old(b)).subrange(0, at as int),
            bm_view(final(b)) == bm_view(old(b)).subrange(at as int, bm_view(old(b)).len() as int);
pub assume_specification[ <BytesMut as core::ops::Deref>::deref ](b: &BytesMut) -> (r: &[u8])
    ensures r@ == bm_view(b);
pub assume_specification[ BytesMut::freeze ](b: BytesMut) -> (r: Bytes)
    ensures b_view(&r) == bm_view(&b);

pub enum CodecError {
    Command(&'static str),
    Greeting(&'static str),
    Mechanism(&'static str),
    Decode(&'static str),
    Other(&'static str),
}

pub struct ZmqGreeting { pub version: (u8, u8), pub as_server: bool }
pub struct ZmqCommand { pub x: u8 }
pub struct ZmqMessage { frames: VecDeque<Bytes> }

impl ZmqMessage {
    #[verifier::external_body]
    pub fn push_back(&mut self, frame: Bytes) { self.frames.push_back(frame); }
    #[verifier::external_body]
    pub fn from(b: Bytes) -> Self { Self { frames: vec![b].into() } }
}

#[verifier::external_body]
fn greeting_try_from(value: Bytes) -> Result<ZmqGreeting, CodecError> { unimplemented!() }
#[verifier::external_body]
fn command_try_from(value: Bytes) -> Result<ZmqCommand, CodecError> { unimplemented!() }

pub enum Message {
    Greeting(ZmqGreeting),
    Command(ZmqCommand),
    Message(ZmqMessage),
}

#[derive(Clone, Copy)]
struct Frame {
    command: bool,
    long: bool,
    more: bool,
}

enum DecoderState {
    Greeting,
    FrameHeader,
    FrameLen(Frame),
    Frame(Frame),
}

pub struct ZmqCodec {
    state: DecoderState,
    waiting_for: usize, // Number of bytes needed to decode frame
    buffered_message: Option<ZmqMessage>,
}

impl ZmqCodec {
    spec fn wf(&self) -> bool {
        match self.state {
            DecoderState::Greeting => self.waiting_for == 64,
            DecoderState::FrameHeader => self.waiting_for == 1,
            DecoderState::FrameLen(f) => self.waiting_for == (if f.long { 8usize } else { 1usize }),
            DecoderState::Frame(f) => true,
        }
    }
    spec fn rank(&self) -> int {
        match self.state {
            DecoderState::Greeting => 0,
            DecoderState::FrameHeader => 0,
            DecoderState::FrameLen(f) => 0,
            DecoderState::Frame(f) => 1,
        }
    }

    fn decode(&mut self, src: &mut BytesMut) -> (r: Result<Option<Message>, CodecError>)
        requires old(self).wf()
        ensures final(self).wf()
        decreases bm_view(old(src)).len(), old(self).rank()
    {
        if src.len() < self.waiting_for {
            src.reserve(self.waiting_for - src.len());
            return Ok(None);
        }
        match self.state {
            DecoderState::Greeting => {
                if src[0] != 0xff {
                    return Err(CodecError::Decode("Bad first byte of greeting"));
                }
                self.state = DecoderState::FrameHeader;
                self.waiting_for = 1;
                Ok(Some(Message::Greeting(greeting_try_from(
                    src.split_to(64).freeze(),
                )?)))
            }
            DecoderState::FrameHeader => {
                let flags = src.get_u8();

                let frame = Frame {
                    command: (flags & 0b0000_0100) != 0,
                    long: (flags & 0b0000_0010) != 0,
                    more: (flags & 0b0000_0001) != 0,
                };
                self.state = DecoderState::FrameLen(frame);
                self.waiting_for = if frame.long { 8 } else { 1 };
                self.decode(src)
            }
            DecoderState::FrameLen(frame) => {
                self.state = DecoderState::Frame(frame);
                self.waiting_for = if frame.long {
                    src.get_u64() as usize
                } else {
                    src.get_u8() as usize
                };
                self.decode(src)
            }
            DecoderState::Frame(frame) => {
                let data = src.split_to(self.waiting_for);
                self.state = DecoderState::FrameHeader;
                self.waiting_for = 1;
                if frame.command {
                    return Ok(Some(Message::Command(command_try_from(data.freeze())?)));
                }

                // process incoming message frame
                match &mut self.buffered_message {
                    Some(v) => v.push_back(data.freeze()),
                    None => self.buffered_message = Some(ZmqMessage::from(data.freeze())),
                }

                if frame.more {
                    self.decode(src)
                } else {
                    // Quoth the Raven “Nevermore.”
                    Ok(Some(Message::Message(
                        self.buffered_message
                            .take()
                            .expect("Corrupted decoder state"),
                    )))
                }
            }
        }
    }
}

} // verus!
fn main() {}
