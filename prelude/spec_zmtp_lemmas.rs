// ===================================================================================
// Corollaries over the RFC decoder specification (pure spec: they do not depend on the code).
// Together with the per-call contract of the real `decode` (one call == one `rfc_step`) they turn
// into the statements of C02 (segmentation independence) and C01 (round trip).
// ===================================================================================

/// an item is only produced by consuming input or by leaving the Body phase
pub proof fn lemma_step_progress(st: DAbs, buf: Seq<u8>)
    ensures
        rfc_step(st, buf) matches Step::Item(it, st1, rest) ==>
            rest.len() < buf.len() || (rest.len() == buf.len() && phase_rank(st1.phase) < phase_rank(st.phase)),
        rfc_step(st, buf) matches Step::NeedMore(st1, rest) ==> rest.len() <= buf.len(),
    decreases buf.len(), phase_rank(st.phase)
{
    match st.phase {
        DPhase::Greeting => {},
        DPhase::Header => {
            if buf.len() >= 1 {
                lemma_step_progress(DAbs { phase: DPhase::Len(rfc_flags_of(buf[0])), partial: st.partial }, buf.subrange(1, buf.len() as int));
            }
        },
        DPhase::Len(f) => {
            if f.long {
                if buf.len() >= 8 {
                    lemma_step_progress(DAbs { phase: DPhase::Body(f, be64_val(buf.subrange(0, 8)) as nat), partial: st.partial }, buf.subrange(8, buf.len() as int));
                }
            } else {
                if buf.len() >= 1 {
                    lemma_step_progress(DAbs { phase: DPhase::Body(f, buf[0] as nat), partial: st.partial }, buf.subrange(1, buf.len() as int));
                }
            }
        },
        DPhase::Body(f, n) => {
            if buf.len() >= n && !f.command && f.more {
                lemma_step_progress(DAbs { phase: DPhase::Header, partial: st.partial.push(buf.subrange(0, n as int)) }, buf.subrange(n as int, buf.len() as int));
            }
        },
    }
}

/// everything a reader gets out of `buf` by calling the decoder until it asks for more:
/// the items in order, and the state + pending bytes it is left with (None after a protocol error)
pub open spec fn rfc_drain(st: DAbs, buf: Seq<u8>) -> (Seq<SItem>, Option<(DAbs, Seq<u8>)>)
    decreases buf.len(), phase_rank(st.phase)
    via rfc_drain_decreases
{
    match rfc_step(st, buf) {
        Step::NeedMore(st1, rest) => (Seq::empty(), Some((st1, rest))),
        Step::Error => (Seq::empty(), None),
        Step::Item(it, st1, rest) => {
            let r = rfc_drain(st1, rest);
            (seq![it] + r.0, r.1)
        },
    }
}
#[via_fn]
proof fn rfc_drain_decreases(st: DAbs, buf: Seq<u8>) {
    lemma_step_progress(st, buf);
}

/// bytes that arrive later do not change what was already decided: one step on `a + b` is the step on `a`
/// continued with `b`
pub proof fn lemma_seg_step_append(st: DAbs, a: Seq<u8>, b: Seq<u8>)
    ensures
        match rfc_step(st, a) {
            Step::NeedMore(st1, rest) => rfc_step(st, a + b) == rfc_step(st1, rest + b),
            Step::Item(it, st1, rest) => rfc_step(st, a + b) == Step::Item(it, st1, rest + b),
            Step::Error => rfc_step(st, a + b) == Step::Error,
        },
    decreases a.len(), phase_rank(st.phase)
{
    let ab = a + b;
    match st.phase {
        DPhase::Greeting => {
            if a.len() >= 64 {
                assert(ab.subrange(0, 64) =~= a.subrange(0, 64));
                assert(ab.subrange(64, ab.len() as int) =~= a.subrange(64, a.len() as int) + b);
            }
        },
        DPhase::Header => {
            if a.len() >= 1 {
                assert(ab[0] == a[0]);
                assert(ab.subrange(1, ab.len() as int) =~= a.subrange(1, a.len() as int) + b);
                lemma_seg_step_append(DAbs { phase: DPhase::Len(rfc_flags_of(a[0])), partial: st.partial }, a.subrange(1, a.len() as int), b);
            }
        },
        DPhase::Len(f) => {
            if f.long {
                if a.len() >= 8 {
                    assert(ab.subrange(0, 8) =~= a.subrange(0, 8));
                    assert(ab.subrange(8, ab.len() as int) =~= a.subrange(8, a.len() as int) + b);
                    lemma_seg_step_append(DAbs { phase: DPhase::Body(f, be64_val(a.subrange(0, 8)) as nat), partial: st.partial }, a.subrange(8, a.len() as int), b);
                }
            } else {
                if a.len() >= 1 {
                    assert(ab[0] == a[0]);
                    assert(ab.subrange(1, ab.len() as int) =~= a.subrange(1, a.len() as int) + b);
                    lemma_seg_step_append(DAbs { phase: DPhase::Body(f, a[0] as nat), partial: st.partial }, a.subrange(1, a.len() as int), b);
                }
            }
        },
        DPhase::Body(f, n) => {
            if a.len() >= n {
                assert(ab.subrange(0, n as int) =~= a.subrange(0, n as int));
                assert(ab.subrange(n as int, ab.len() as int) =~= a.subrange(n as int, a.len() as int) + b);
                if !f.command && f.more {
                    lemma_seg_step_append(DAbs { phase: DPhase::Header, partial: st.partial.push(a.subrange(0, n as int)) }, a.subrange(n as int, a.len() as int), b);
                }
            }
        },
    }
}

/// the state the decoder waits in is stable: asking again without new bytes changes nothing
pub proof fn lemma_seg_needmore_fixpoint(st: DAbs, buf: Seq<u8>)
    ensures rfc_step(st, buf) matches Step::NeedMore(st1, rest) ==> rfc_step(st1, rest) == Step::NeedMore(st1, rest),
    decreases buf.len(), phase_rank(st.phase)
{
    match st.phase {
        DPhase::Greeting => {},
        DPhase::Header => {
            if buf.len() >= 1 {
                lemma_seg_needmore_fixpoint(DAbs { phase: DPhase::Len(rfc_flags_of(buf[0])), partial: st.partial }, buf.subrange(1, buf.len() as int));
            }
        },
        DPhase::Len(f) => {
            if f.long {
                if buf.len() >= 8 {
                    lemma_seg_needmore_fixpoint(DAbs { phase: DPhase::Body(f, be64_val(buf.subrange(0, 8)) as nat), partial: st.partial }, buf.subrange(8, buf.len() as int));
                }
            } else {
                if buf.len() >= 1 {
                    lemma_seg_needmore_fixpoint(DAbs { phase: DPhase::Body(f, buf[0] as nat), partial: st.partial }, buf.subrange(1, buf.len() as int));
                }
            }
        },
        DPhase::Body(f, n) => {
            if buf.len() >= n && !f.command && f.more {
                lemma_seg_needmore_fixpoint(DAbs { phase: DPhase::Header, partial: st.partial.push(buf.subrange(0, n as int)) }, buf.subrange(n as int, buf.len() as int));
            }
        },
    }
}

/// TWO READS: draining `a` and then `(what was left) + b` yields exactly what draining `a + b` yields
pub proof fn lemma_seg_drain_append(st: DAbs, a: Seq<u8>, b: Seq<u8>)
    ensures
        match rfc_drain(st, a).1 {
            None => rfc_drain(st, a + b) == rfc_drain(st, a),
            Some((st1, rest1)) => rfc_drain(st, a + b) == (rfc_drain(st, a).0 + rfc_drain(st1, rest1 + b).0, rfc_drain(st1, rest1 + b).1),
        },
    decreases a.len(), phase_rank(st.phase)
{
    lemma_seg_step_append(st, a, b);
    lemma_step_progress(st, a);
    match rfc_step(st, a) {
        Step::NeedMore(st1, rest) => {
            // drain(st, a) = ([], Some(st1, rest));  step(st, a+b) == step(st1, rest+b)
            assert(rfc_drain(st, a + b) == rfc_drain(st1, rest + b));
            assert(Seq::<SItem>::empty() + rfc_drain(st1, rest + b).0 =~= rfc_drain(st1, rest + b).0);
        },
        Step::Error => {},
        Step::Item(it, st1, rest) => {
            lemma_seg_drain_append(st1, rest, b);
            let d = rfc_drain(st1, rest);
            match d.1 {
                None => {},
                Some((st2, rest2)) => {
                    let e = rfc_drain(st2, rest2 + b);
                    assert((seq![it] + d.0) + e.0 =~= seq![it] + (d.0 + e.0));
                },
            }
        },
    }
}

/// after a drain the reader is quiescent
pub proof fn lemma_seg_drain_quiescent(st: DAbs, buf: Seq<u8>)
    ensures rfc_drain(st, buf).1 matches Some((st1, rest1)) ==> rfc_drain(st1, rest1) == (Seq::<SItem>::empty(), Some((st1, rest1))),
    decreases buf.len(), phase_rank(st.phase)
{
    lemma_seg_needmore_fixpoint(st, buf);
    lemma_step_progress(st, buf);
    match rfc_step(st, buf) {
        Step::Item(it, st1, rest) => { lemma_seg_drain_quiescent(st1, rest); },
        _ => {},
    }
}

pub open spec fn flatten(chunks: Seq<Seq<u8>>) -> Seq<u8>
    decreases chunks.len()
{
    if chunks.len() == 0 { Seq::empty() } else { chunks[0] + flatten(chunks.subrange(1, chunks.len() as int)) }
}
/// a reader that appends each chunk it receives to its pending bytes and drains
pub open spec fn rfc_feed(st: DAbs, pending: Seq<u8>, chunks: Seq<Seq<u8>>) -> (Seq<SItem>, Option<(DAbs, Seq<u8>)>)
    decreases chunks.len()
{
    if chunks.len() == 0 { (Seq::empty(), Some((st, pending))) }
    else {
        let d = rfc_drain(st, pending + chunks[0]);
        match d.1 {
            None => d,
            Some((st1, p1)) => {
                let r = rfc_feed(st1, p1, chunks.subrange(1, chunks.len() as int));
                (d.0 + r.0, r.1)
            },
        }
    }
}
/// C02: FOR EVERY partition of the stream into reads, a quiescent reader produces exactly the items,
/// final state and leftover bytes that one read of the concatenated stream produces.
pub proof fn lemma_seg_any_partition(st: DAbs, pending: Seq<u8>, chunks: Seq<Seq<u8>>)
    requires rfc_drain(st, pending) == (Seq::<SItem>::empty(), Some((st, pending))),
    ensures rfc_feed(st, pending, chunks) == rfc_drain(st, pending + flatten(chunks)),
    decreases chunks.len()
{
    if chunks.len() == 0 {
        assert(pending + flatten(chunks) =~= pending);
    } else {
        let c = chunks[0];
        let cs = chunks.subrange(1, chunks.len() as int);
        let d = rfc_drain(st, pending + c);
        lemma_seg_drain_append(st, pending + c, flatten(cs));
        assert((pending + c) + flatten(cs) =~= pending + flatten(chunks));
        match d.1 {
            None => {},
            Some((st1, p1)) => {
                lemma_seg_drain_quiescent(st, pending + c);
                lemma_seg_any_partition(st1, p1, cs);
            },
        }
    }
}

// ---------------------------------------------------------------------------------
// C01: the RFC decoder parses the RFC image of a message back to the same frames
// ---------------------------------------------------------------------------------
pub proof fn lemma_be64_roundtrip(x: u64)
    ensures be64_val(be64(x)) == x,
{
    let s = be64(x);
    assert(s[0] == (x >> 56) as u8 && s[1] == (x >> 48) as u8 && s[2] == (x >> 40) as u8 && s[3] == (x >> 32) as u8
        && s[4] == (x >> 24) as u8 && s[5] == (x >> 16) as u8 && s[6] == (x >> 8) as u8 && s[7] == x as u8);
    assert((((x >> 56) as u8 as u64) << 56 | ((x >> 48) as u8 as u64) << 48 | ((x >> 40) as u8 as u64) << 40 | ((x >> 32) as u8 as u64) << 32
        | ((x >> 24) as u8 as u64) << 24 | ((x >> 16) as u8 as u64) << 16 | ((x >> 8) as u8 as u64) << 8 | (x as u8 as u64)) == x) by(bit_vector);
}
pub proof fn lemma_flags_roundtrip(more: bool, long: bool)
    ensures rfc_flags_of(rfc_flags(more, long, false)) == (SFlags { command: false, long, more }),
{
    assert(0u8 & 4u8 == 0u8 && 0u8 & 2u8 == 0u8 && 0u8 & 1u8 == 0u8) by(bit_vector);
    assert(1u8 & 4u8 == 0u8 && 1u8 & 2u8 == 0u8 && 1u8 & 1u8 == 1u8) by(bit_vector);
    assert(2u8 & 4u8 == 0u8 && 2u8 & 2u8 == 2u8 && 2u8 & 1u8 == 0u8) by(bit_vector);
    assert(3u8 & 4u8 == 0u8 && 3u8 & 2u8 == 2u8 && 3u8 & 1u8 == 1u8) by(bit_vector);
}

/// one frame: header, size and body are consumed and the body joins the partial message
pub proof fn lemma_roundtrip_frame(partial: Seq<Seq<u8>>, body: Seq<u8>, more: bool, tail: Seq<u8>)
    requires body.len() <= 0xffff_ffff_ffff_ffff,
    ensures
        rfc_step(DAbs { phase: DPhase::Header, partial }, rfc_frame(body, more, false) + tail)
            == (if more { rfc_step(DAbs { phase: DPhase::Header, partial: partial.push(body) }, tail) }
                else { Step::Item(SItem::Message(partial.push(body)), DAbs { phase: DPhase::Header, partial: Seq::empty() }, tail) }),
{
    let long = body.len() > 255;
    let w = rfc_frame(body, more, false) + tail;
    lemma_flags_roundtrip(more, long);
    let f = SFlags { command: false, long, more };
    assert(w[0] == rfc_flags(more, long, false));
    let w1 = w.subrange(1, w.len() as int);
    // header octet
    assert(rfc_step(DAbs { phase: DPhase::Header, partial }, w) == rfc_step(DAbs { phase: DPhase::Len(f), partial }, w1));
    if long {
        let n = body.len() as u64;
        lemma_be64_roundtrip(n);
        assert(w1.subrange(0, 8) =~= be64(n));
        let w2 = w1.subrange(8, w1.len() as int);
        assert(w2 =~= body + tail);
        // size field
        assert(rfc_step(DAbs { phase: DPhase::Len(f), partial }, w1) == rfc_step(DAbs { phase: DPhase::Body(f, body.len()), partial }, w2));
        lemma_roundtrip_body(partial, f, body, tail, w2);
    } else {
        assert(w1[0] == body.len() as u8);
        let w2 = w1.subrange(1, w1.len() as int);
        assert(w2 =~= body + tail);
        assert(rfc_step(DAbs { phase: DPhase::Len(f), partial }, w1) == rfc_step(DAbs { phase: DPhase::Body(f, body.len()), partial }, w2));
        lemma_roundtrip_body(partial, f, body, tail, w2);
    }
}
proof fn lemma_roundtrip_body(partial: Seq<Seq<u8>>, f: SFlags, body: Seq<u8>, tail: Seq<u8>, w2: Seq<u8>)
    requires w2 == body + tail, !f.command,
    ensures
        rfc_step(DAbs { phase: DPhase::Body(f, body.len()), partial }, w2)
            == (if f.more { rfc_step(DAbs { phase: DPhase::Header, partial: partial.push(body) }, tail) }
                else { Step::Item(SItem::Message(partial.push(body)), DAbs { phase: DPhase::Header, partial: Seq::empty() }, tail) }),
{
    assert(w2.subrange(0, body.len() as int) =~= body);
    assert(w2.subrange(body.len() as int, w2.len() as int) =~= tail);
}

/// a whole message: MORE on every frame but the last makes the decoder collect all frames into ONE item
pub proof fn lemma_roundtrip_msg(partial: Seq<Seq<u8>>, frames: Seq<Seq<u8>>, tail: Seq<u8>)
    requires
        frames.len() >= 1,
        forall|i: int| 0 <= i < frames.len() ==> (#[trigger] frames[i]).len() <= 0xffff_ffff_ffff_ffff,
    ensures
        rfc_step(DAbs { phase: DPhase::Header, partial }, rfc_msg(frames) + tail)
            == Step::Item(SItem::Message(partial + frames), DAbs { phase: DPhase::Header, partial: Seq::empty() }, tail),
    decreases frames.len()
{
    let rest = frames.subrange(1, frames.len() as int);
    let more = frames.len() > 1;
    assert(rfc_msg(frames) + tail =~= rfc_frame(frames[0], more, false) + (rfc_msg(rest) + tail));
    lemma_roundtrip_frame(partial, frames[0], more, rfc_msg(rest) + tail);
    if more {
        assert forall|i: int| 0 <= i < rest.len() implies (#[trigger] rest[i]).len() <= 0xffff_ffff_ffff_ffff by {
            assert(rest[i] == frames[i + 1]);
        }
        lemma_roundtrip_msg(partial.push(frames[0]), rest, tail);
        assert(partial.push(frames[0]) + rest =~= partial + frames);
    } else {
        assert(rest.len() == 0);
        assert(rfc_msg(rest) + tail =~= tail);
        assert(partial.push(frames[0]) =~= partial + frames);
    }
}

/// C01: for every message of >= 1 frames, a reader that has finished the handshake and receives exactly the
/// RFC image of the message gets exactly that message, and nothing is left over.
pub proof fn lemma_roundtrip_message(frames: Seq<Seq<u8>>)
    requires
        frames.len() >= 1,
        forall|i: int| 0 <= i < frames.len() ==> (#[trigger] frames[i]).len() <= 0xffff_ffff_ffff_ffff,
    ensures
        rfc_drain(DAbs { phase: DPhase::Header, partial: Seq::empty() }, rfc_msg(frames))
            == (seq![SItem::Message(frames)], Some((DAbs { phase: DPhase::Header, partial: Seq::<Seq<u8>>::empty() }, Seq::<u8>::empty()))),
{
    let st = DAbs { phase: DPhase::Header, partial: Seq::<Seq<u8>>::empty() };
    lemma_roundtrip_msg(Seq::empty(), frames, Seq::empty());
    assert(rfc_msg(frames) + Seq::<u8>::empty() =~= rfc_msg(frames));
    assert(Seq::<Seq<u8>>::empty() + frames =~= frames);
    // after the item: an empty buffer in the Header phase asks for more
    assert(rfc_step(st, Seq::<u8>::empty()) == Step::NeedMore(st, Seq::<u8>::empty()));
    assert(rfc_drain(st, Seq::<u8>::empty()) == (Seq::<SItem>::empty(), Some((st, Seq::<u8>::empty()))));
    assert(seq![SItem::Message(frames)] + Seq::<SItem>::empty() =~= seq![SItem::Message(frames)]);
}
