use vstd::prelude::*;
use bytes::{Buf, BufMut, Bytes, BytesMut};
verus! {
global size_of usize == 8;

#[verifier::external_type_specification]
#[verifier::external_body]
pub struct ExBytesMut(BytesMut);
#[verifier::external_type_specification]
#[verifier::external_body]
pub struct ExBytes(Bytes);
pub uninterp spec fn bm_view(b: &BytesMut) -> Seq<u8>;
pub uninterp spec fn b_view(b: &Bytes) -> Seq<u8>;

pub open spec fn be64(x: u64) -> Seq<u8> {
    seq![(x >> 56) as u8, (x >> 48) as u8, (x >> 40) as u8, (x >> 32) as u8,
         (x >> 24) as u8, (x >> 16) as u8, (x >> 8) as u8, x as u8]
}

#[verifier::external_trait_specification]
#[verifier::external_trait_extension(BufMutSpec via BufMutSpecImpl)]
pub trait ExBufMut {
    type ExternalTraitSpecificationFor: BufMut;
    spec fn mview(&self) -> Seq<u8>;
    fn put_u8(&mut self, n: u8)
        ensures final(self).mview() == old(self).mview().push(n);
    fn put_u64(&mut self, n: u64)
        ensures final(self).mview() == old(self).mview() + be64(n);
}
impl BufMutSpecImpl for BytesMut {
    open spec fn mview(&self) -> Seq<u8> { bm_view(self) }
}
pub assume_specification[ Bytes::len ](b: &Bytes) -> (r: usize)
    ensures r == b_view(b).len(), r <= 0x7fff_ffff_ffff_ffff;
pub assume_specification[ <Bytes as core::convert::AsRef<[u8]>>::as_ref ](b: &Bytes) -> (r: &[u8])
    ensures r@ == b_view(b);
pub assume_specification[ BytesMut::reserve ](b: &mut BytesMut, additional: usize)
    ensures bm_view(final(b)) == bm_view(old(b));
pub assume_specification[ BytesMut::extend_from_slice ](b: &mut BytesMut, s: &[u8])
    ensures bm_view(final(b)) == bm_view(old(b)) + s@;

// ---- RFC 23 spec ----
pub open spec fn rfc_flags(more: bool, long: bool, command: bool) -> u8 {
    ((if more { 1int } else { 0int }) + (if long { 2int } else { 0int }) + (if command { 4int } else { 0int })) as u8
}
pub open spec fn rfc_frame(body: Seq<u8>, more: bool, command: bool) -> Seq<u8> {
    if body.len() <= 255 {
        seq![rfc_flags(more, false, command), body.len() as u8] + body
    } else {
        seq![rfc_flags(more, true, command)] + be64(body.len() as u64) + body
    }
}

// ---- real text of encode_frame (zmq_codec.rs:123-142) ----
fn encode_frame(frame: &Bytes, dst: &mut BytesMut, more: bool)
    ensures bm_view(final(dst)) == bm_view(old(dst)) + rfc_frame(b_view(frame), more, false)
{
    let mut flags: u8 = 0;
    if more {
        flags |= 0b0000_0001;
    }
    let len = frame.len();
    if len > 255 {
        flags |= 0b0000_0010;
        dst.reserve(len + 9);
    } else {
        dst.reserve(len + 2);
    }
    dst.put_u8(flags);
    if len > 255 {
        dst.put_u64(len as u64);
    } else {
        dst.put_u8(len as u8);
    }
    dst.extend_from_slice(frame.as_ref());
    proof {
        assert(0u8 | 1u8 == 1u8) by(bit_vector);
        assert(0u8 | 2u8 == 2u8) by(bit_vector);
        assert(1u8 | 2u8 == 3u8) by(bit_vector);
        assert(bm_view(dst) =~= bm_view(old(dst)) + rfc_frame(b_view(frame), more, false));
    }
}

} // verus!
fn main() {}
