// ---- codec value types (real definitions) ----
#[verifier::external_type_specification]
#[verifier::external_body]
pub struct ExIoError(std::io::Error);
// std::io::ErrorKind is a plain field-less enum: taken as is (patterns and `==` on its variants are read)
#[verifier::external_type_specification]
pub struct ExErrorKind(std::io::ErrorKind);
/// the kind an I/O error carries (ASSUMED: `kind()` is a pure accessor)
pub uninterp spec fn io_kind(e: &std::io::Error) -> std::io::ErrorKind;
pub assume_specification[std::io::Error::kind](e: &std::io::Error) -> (r: std::io::ErrorKind)
    ensures r == io_kind(e);
pub assume_specification[<std::io::ErrorKind as PartialEq>::eq](a: &std::io::ErrorKind, b: &std::io::ErrorKind) -> (r: bool)
    ensures r == (*a == *b);

//@ item src/codec/error.rs :: enum CodecError
//@ end
//@ item src/codec/error.rs :: type CodecResult
//@ end
//@ item src/codec/mechanism.rs :: enum ZmqMechanism
//@ end
//@ item src/codec/greeting.rs :: type ZmtpVersion
//@ end
//@ item src/codec/greeting.rs :: struct ZmqGreeting
//@ end
//@ item src/codec/command.rs :: enum ZmqCommandName
//@ end
//@ item src/codec/command.rs :: struct ZmqCommand
//@ end
//@ item src/codec/mod.rs :: enum Message
//@ end
