// Demonstrations of the C16 defects F9 (DEALER), F10 (REP), F11 (SUB) and F12 (REQ) against the REAL
// code, through the public API only.  Not part of any check.  Usage (scratch copy of /repo, never /repo itself):
//   cp /verif/findings/defect_demo_c16.rs tests/ && cargo test --offline --test defect_demo_c16 -- --test-threads 1
// A raw TCP peer completes the handshake, sends the first octets of a frame and closes the connection.  The property:
// "recv reports at most one error for that event and never spins ... on it".  Before the fix: commits recv() on a
// DEALER, REP or SUB socket returns an error for the SAME dead connection every time it is called (20 of 20 calls);
// PULL and ROUTER, which forget the read half as well as the write half, report it once.
use std::time::Duration;
use tokio::io::AsyncWriteExt;
use tokio::net::TcpStream;
use zeromq::prelude::*;

fn greeting() -> Vec<u8> {
    let mut g = vec![0u8; 64];
    g[0] = 0xff; g[9] = 0x7f; g[10] = 3; g[12..16].copy_from_slice(b"NULL");
    g
}
fn ready(socktype: &str) -> Vec<u8> {
    let mut body = vec![5u8]; body.extend_from_slice(b"READY");
    body.push(11); body.extend_from_slice(b"Socket-Type");
    body.extend_from_slice(&(socktype.len() as u32).to_be_bytes()); body.extend_from_slice(socktype.as_bytes());
    let mut f = vec![0x04u8, body.len() as u8]; f.extend_from_slice(&body); f
}
async fn raw_peer(addr: &str, socktype: &str, garbage: &[u8], close: bool) -> Option<TcpStream> {
    let addr = addr.trim_start_matches("tcp://");
    let mut s = TcpStream::connect(addr).await.unwrap();
    s.write_all(&greeting()).await.unwrap();
    s.write_all(&ready(socktype)).await.unwrap();
    tokio::time::sleep(Duration::from_millis(200)).await;
    s.write_all(garbage).await.unwrap();
    s.flush().await.unwrap();
    if close { drop(s); None } else { Some(s) }
}
async fn count_errors<S: SocketRecv>(sock: &mut S) -> (usize, usize) {
    let mut errs = 0; let mut oks = 0;
    for _ in 0..20 {
        match tokio::time::timeout(Duration::from_millis(400), sock.recv()).await {
            Ok(Ok(_)) => oks += 1,
            Ok(Err(_)) => errs += 1,
            Err(_) => break,
        }
    }
    (errs, oks)
}

const CUT_MID_FRAME: &[u8] = &[0x01, 0x05, b'a'];

#[tokio::test]
async fn f9_dealer_reports_a_dead_peer_once() {
    let mut s = zeromq::DealerSocket::new();
    let ep = s.bind("tcp://127.0.0.1:0").await.unwrap().to_string();
    raw_peer(&ep, "DEALER", CUT_MID_FRAME, true).await;
    let (errs, _) = count_errors(&mut s).await;
    assert!(errs <= 1, "DEALER recv reported the same dead connection {errs} times");
}
#[tokio::test]
async fn f10_rep_reports_a_dead_peer_once() {
    let mut s = zeromq::RepSocket::new();
    let ep = s.bind("tcp://127.0.0.1:0").await.unwrap().to_string();
    raw_peer(&ep, "REQ", CUT_MID_FRAME, true).await;
    let (errs, _) = count_errors(&mut s).await;
    assert!(errs <= 1, "REP recv reported the same dead connection {errs} times");
}
#[tokio::test]
async fn f11_sub_reports_a_dead_peer_once() {
    let mut s = zeromq::SubSocket::new();
    let ep = s.bind("tcp://127.0.0.1:0").await.unwrap().to_string();
    raw_peer(&ep, "PUB", CUT_MID_FRAME, true).await;
    let (errs, _) = count_errors(&mut s).await;
    assert!(errs <= 1, "SUB recv reported the same dead connection {errs} times");
}
#[tokio::test]
async fn pull_already_does() {
    let mut s = zeromq::PullSocket::new();
    let ep = s.bind("tcp://127.0.0.1:0").await.unwrap().to_string();
    raw_peer(&ep, "PUSH", CUT_MID_FRAME, true).await;
    let (errs, _) = count_errors(&mut s).await;
    assert!(errs <= 1, "PULL recv reported the same dead connection {errs} times");
}

// F12: REQ reads its peer directly; after a failed read the peer stayed in table and rotation and the NEXT send was
// routed to the dead connection and reported Ok.
#[tokio::test]
async fn f12_req_forgets_a_peer_whose_read_failed() {
    let l = tokio::net::TcpListener::bind("127.0.0.1:0").await.unwrap();
    let addr = l.local_addr().unwrap();
    let server = tokio::spawn(async move {
        let (mut s, _) = l.accept().await.unwrap();
        s.write_all(&greeting()).await.unwrap();
        s.write_all(&ready("REP")).await.unwrap();
        let mut buf = vec![0u8; 4096];
        // read greeting + ready + request
        let mut got = 0;
        while got < 64 + 10 { got += tokio::io::AsyncReadExt::read(&mut s, &mut buf).await.unwrap(); }
        tokio::time::sleep(Duration::from_millis(200)).await;
        // first octets of a reply frame, then close
        s.write_all(&[0x01, 0x05, b'a']).await.unwrap();
        s.flush().await.unwrap();
        drop(s);
    });
    let mut req = zeromq::ReqSocket::new();
    req.connect(&format!("tcp://{}", addr)).await.unwrap();
    req.send("hello".into()).await.unwrap();
    let r = tokio::time::timeout(Duration::from_secs(2), req.recv()).await.unwrap();
    assert!(r.is_err(), "the reply was cut short");
    server.await.unwrap();
    tokio::time::sleep(Duration::from_millis(200)).await;
    // the socket has observed the end of its only peer: a later send must not be routed to it
    let again = req.send("again".into()).await;
    println!("second send: {:?}", again.as_ref().map_err(|e| e.to_string()));
    assert!(again.is_err(), "send after the only peer failed was routed to the dead connection and reported Ok");
}
