// ---- assumed specifications of std functions that vstd does not cover (TRUSTED) ----
pub assume_specification<T, A: std::alloc::Allocator> [std::collections::VecDeque::<T, A>::is_empty] (d: &std::collections::VecDeque<T, A>) -> (r: bool)
    ensures r == (d@.len() == 0);
pub assume_specification<T, A: std::alloc::Allocator> [std::collections::VecDeque::<T, A>::get] (d: &std::collections::VecDeque<T, A>, i: usize) -> (r: Option<&T>)
    ensures i < d@.len() ==> r == Some(&d@[i as int]),
            i >= d@.len() ==> r is None;
pub assume_specification<T, A: std::alloc::Allocator> [<std::collections::VecDeque<T, A> as core::convert::From<Vec<T, A>>>::from] (v: Vec<T, A>) -> (r: std::collections::VecDeque<T, A>)
    ensures r@ == v@;
