// ===================================================================================
// Assumed specifications of the `bytes` crate (real crate linked via --extern).
// Sequence semantics; the real panic conditions are the preconditions.
// TRUSTED: every `assume_specification` / external trait spec below (checked against
// the real implementation by the Kani `bytes_spec_*` harnesses, bounded, thorough tier).
// ===================================================================================
#[verifier::external_type_specification]
#[verifier::external_body]
pub struct ExBytesMut(BytesMut);

#[verifier::external_type_specification]
#[verifier::external_body]
pub struct ExBytes(Bytes);

/// the octets of a string slice (its UTF-8 encoding; vstd's byte view of `str`)
pub open spec fn str_bytes(s: &str) -> Seq<u8> { vstd::string::StringSliceAdditionalSpecFns::spec_bytes(s) }
pub uninterp spec fn bm_view(b: &BytesMut) -> Seq<u8>;
pub uninterp spec fn b_view(b: &Bytes) -> Seq<u8>;
/// ghost counter: total size explicitly requested through `BytesMut::reserve` on this buffer
pub uninterp spec fn bm_reserved(b: &BytesMut) -> nat;

pub open spec fn be16v(s: Seq<u8>) -> u16 { ((s[0] as u16) << 8 | (s[1] as u16)) as u16 }
pub open spec fn be32(x: u32) -> Seq<u8> {
    seq![(x >> 24) as u8, (x >> 16) as u8, (x >> 8) as u8, x as u8]
}
pub open spec fn be32_val(s: Seq<u8>) -> u32 {
    ((s[0] as u32) << 24 | (s[1] as u32) << 16 | (s[2] as u32) << 8 | (s[3] as u32)) as u32
}
pub open spec fn be64(x: u64) -> Seq<u8> {
    seq![(x >> 56) as u8, (x >> 48) as u8, (x >> 40) as u8, (x >> 32) as u8,
         (x >> 24) as u8, (x >> 16) as u8, (x >> 8) as u8, x as u8]
}
pub open spec fn be64_val(s: Seq<u8>) -> u64 {
    ((s[0] as u64) << 56 | (s[1] as u64) << 48 | (s[2] as u64) << 40 | (s[3] as u64) << 32
     | (s[4] as u64) << 24 | (s[5] as u64) << 16 | (s[6] as u64) << 8 | (s[7] as u64)) as u64
}

#[verifier::external_trait_specification]
#[verifier::external_trait_extension(BufSpec via BufSpecImpl)]
pub trait ExBuf {
    type ExternalTraitSpecificationFor: Buf;
    spec fn bview(&self) -> Seq<u8>;
    spec fn breserved(&self) -> nat;
    fn remaining(&self) -> (r: usize)
        ensures r == self.bview().len();
    fn has_remaining(&self) -> (r: bool)
        ensures r == (self.bview().len() > 0);
    fn advance(&mut self, cnt: usize)
        requires cnt <= old(self).bview().len()
        ensures final(self).bview() == old(self).bview().subrange(cnt as int, old(self).bview().len() as int),
                final(self).breserved() == old(self).breserved();
    fn get_u8(&mut self) -> (r: u8)
        requires old(self).bview().len() >= 1
        ensures r == old(self).bview()[0],
                final(self).bview() == old(self).bview().subrange(1, old(self).bview().len() as int),
                final(self).breserved() == old(self).breserved();
    fn get_u32(&mut self) -> (r: u32)
        requires old(self).bview().len() >= 4
        ensures r == be32_val(old(self).bview().subrange(0, 4)),
                final(self).bview() == old(self).bview().subrange(4, old(self).bview().len() as int),
                final(self).breserved() == old(self).breserved();
    fn get_u64(&mut self) -> (r: u64)
        requires old(self).bview().len() >= 8
        ensures r == be64_val(old(self).bview().subrange(0, 8)),
                final(self).bview() == old(self).bview().subrange(8, old(self).bview().len() as int),
                final(self).breserved() == old(self).breserved();
}
impl BufSpecImpl for BytesMut {
    open spec fn bview(&self) -> Seq<u8> { bm_view(self) }
    open spec fn breserved(&self) -> nat { bm_reserved(self) }
}
impl BufSpecImpl for Bytes {
    open spec fn bview(&self) -> Seq<u8> { b_view(self) }
    open spec fn breserved(&self) -> nat { 0 }
}

#[verifier::external_trait_specification]
#[verifier::external_trait_extension(BufMutSpec via BufMutSpecImpl)]
pub trait ExBufMut {
    type ExternalTraitSpecificationFor: BufMut;
    spec fn mview(&self) -> Seq<u8>;
    fn put_u8(&mut self, n: u8)
        ensures final(self).mview() == old(self).mview().push(n);
    fn put_u32(&mut self, n: u32)
        ensures final(self).mview() == old(self).mview() + be32(n);
    fn put_u64(&mut self, n: u64)
        ensures final(self).mview() == old(self).mview() + be64(n);
}
impl BufMutSpecImpl for BytesMut {
    open spec fn mview(&self) -> Seq<u8> { bm_view(self) }
}

pub assume_specification[ BytesMut::new ]() -> (r: BytesMut)
    ensures bm_view(&r) == Seq::<u8>::empty();
pub assume_specification[ BytesMut::with_capacity ](c: usize) -> (r: BytesMut)
    ensures bm_view(&r) == Seq::<u8>::empty();
pub assume_specification[ BytesMut::len ](b: &BytesMut) -> (r: usize)
    ensures r == bm_view(b).len();
pub assume_specification[ BytesMut::is_empty ](b: &BytesMut) -> (r: bool)
    ensures r == (bm_view(b).len() == 0);
pub assume_specification[ BytesMut::reserve ](b: &mut BytesMut, additional: usize)
    ensures bm_view(final(b)) == bm_view(old(b)),
            bm_reserved(final(b)) == bm_reserved(old(b)) + additional;
pub assume_specification[ BytesMut::split_to ](b: &mut BytesMut, at: usize) -> (r: BytesMut)
    requires at <= bm_view(old(b)).len()
    ensures bm_view(&r) == bm_view(old(b)).subrange(0, at as int),
            bm_view(final(b)) == bm_view(old(b)).subrange(at as int, bm_view(old(b)).len() as int),
            bm_reserved(final(b)) == bm_reserved(old(b));
pub assume_specification[ BytesMut::freeze ](b: BytesMut) -> (r: Bytes)
    ensures b_view(&r) == bm_view(&b);
pub assume_specification[ BytesMut::extend_from_slice ](b: &mut BytesMut, s: &[u8])
    ensures bm_view(final(b)) == bm_view(old(b)) + s@;
pub assume_specification[ <BytesMut as core::ops::Deref>::deref ](b: &BytesMut) -> (r: &[u8])
    ensures r@ == bm_view(b);

pub assume_specification[ Bytes::new ]() -> (r: Bytes)
    ensures b_view(&r) == Seq::<u8>::empty();
// Bytes::len() <= isize::MAX: a `Bytes` is backed by one Rust allocation
pub assume_specification[ Bytes::len ](b: &Bytes) -> (r: usize)
    ensures r == b_view(b).len(), r <= 0x7fff_ffff_ffff_ffff;
pub assume_specification[ Bytes::is_empty ](b: &Bytes) -> (r: bool)
    ensures r == (b_view(b).len() == 0);
pub assume_specification[ Bytes::split_to ](b: &mut Bytes, at: usize) -> (r: Bytes)
    requires at <= b_view(old(b)).len()
    ensures b_view(&r) == b_view(old(b)).subrange(0, at as int),
            b_view(final(b)) == b_view(old(b)).subrange(at as int, b_view(old(b)).len() as int);
pub assume_specification[ <Bytes as core::ops::Deref>::deref ](b: &Bytes) -> (r: &[u8])
    ensures r@ == b_view(b);
pub assume_specification[ <Bytes as core::convert::AsRef<[u8]>>::as_ref ](b: &Bytes) -> (r: &[u8])
    ensures r@ == b_view(b);
// a clone of a `Bytes` is a second handle on the same immutable octets
pub assume_specification[ <Bytes as Clone>::clone ](b: &Bytes) -> (r: Bytes)
    ensures r == *b;
pub assume_specification[ <Bytes as core::convert::From<&'static str>>::from ](s: &'static str) -> (r: Bytes)
    ensures b_view(&r) == str_bytes(s);
