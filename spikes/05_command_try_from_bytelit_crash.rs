use vstd::prelude::*;
use bytes::{Buf, BufMut, Bytes, BytesMut};
use std::collections::HashMap;
use std::convert::TryFrom;
verus! {
global size_of usize == 8;

#[verifier::external_type_specification]
#[verifier::external_body]
pub struct ExBytesMut(BytesMut);
#[verifier::external_type_specification]
#[verifier::external_body]
pub struct ExBytes(Bytes);
pub uninterp spec fn bm_view(b: &BytesMut) -> Seq<u8>;
pub uninterp spec fn b_view(b: &Bytes) -> Seq<u8>;

#[verifier::external_trait_specification]
#[verifier::external_trait_extension(BufSpec via BufSpecImpl)]
pub trait ExBuf {
    type ExternalTraitSpecificationFor: Buf;
    spec fn bview(&self) -> Seq<u8>;
    fn get_u8(&mut self) -> (r: u8)
        requires old(self).bview().len() >= 1
        ensures r == old(self).bview()[0], final(self).bview() == old(self).bview().subrange(1, old(self).bview().len() as int);
    fn get_u32(&mut self) -> (r: u32)
        requires old(self).bview().len() >= 4
        ensures final(self).bview() == old(self).bview().subrange(4, old(self).bview().len() as int);
    fn advance(&mut self, cnt: usize)
        requires cnt <= old(self).bview().len()
        ensures final(self).bview() == old(self).bview().subrange(cnt as int, old(self).bview().len() as int);
}
impl BufSpecImpl for Bytes {
    open spec fn bview(&self) -> Seq<u8> { b_view(self) }
}
pub assume_specification[ Bytes::len ](b: &Bytes) -> (r: usize)
    ensures r == b_view(b).len();
pub assume_specification[ Bytes::is_empty ](b: &Bytes) -> (r: bool)
    ensures r == (b_view(b).len() == 0);
pub assume_specification[ <Bytes as core::ops::Deref>::deref ](b: &Bytes) -> (r: &[u8])
    ensures r@ == b_view(b);
pub assume_specification[ Bytes::split_to ](b: &mut Bytes, at: usize) -> (r: Bytes)
    requires at <= b_view(old(b)).len()
    ensures b_view(&r) == b_view(old(b)).subrange(0, at as int),
            b_view(final(b)) == b_view(old(b)).subrange(at as int, b_view(old(b)).len() as int);

#[verifier::external_type_specification]
#[verifier::external_body]
pub struct ExFromUtf8Error(std::string::FromUtf8Error);
pub uninterp spec fn utf8_ok(v: Seq<u8>) -> bool;
pub uninterp spec fn utf8_bytes(s: &String) -> Seq<u8>;
pub assume_specification [std::string::String::from_utf8] (v: Vec<u8>) -> (r: Result<String, std::string::FromUtf8Error>)
    ensures r is Ok <==> utf8_ok(v@), r is Ok ==> utf8_bytes(&r->Ok_0) == v@;
pub assume_specification<T: Clone> [<[T]>::to_vec] (s: &[T]) -> (r: Vec<T>)
    ensures r@ == s@;
pub enum CodecError {
    Command(&'static str),
    Decode(&'static str),
}

#[derive(Copy, Clone)]
pub enum ZmqCommandName {
    READY,
}

pub struct ZmqCommand {
    pub name: ZmqCommandName,
    pub properties: HashMap<String, Bytes>,
}

impl vstd::std_specs::convert::TryFromSpecImpl<Bytes> for ZmqCommand {
    open spec fn obeys_try_from_spec() -> bool { false }
    open spec fn try_from_spec(v: Bytes) -> Result<Self, CodecError> { arbitrary() }
}

impl TryFrom<Bytes> for ZmqCommand {
    type Error = CodecError;

    fn try_from(mut buf: Bytes) -> Result<Self, Self::Error> {
        let command_len = buf.get_u8() as usize;
        // command-name-char = ALPHA according to https://rfc.zeromq.org/spec:23/ZMTP/
        let command = match &buf[..command_len] {
            b"READY" => ZmqCommandName::READY,
            _ => return Err(CodecError::Command("Unknown command received")),
        };
        buf.advance(command_len);
        let mut properties = HashMap::new();

        while !buf.is_empty()
            decreases b_view(&buf).len()
        {
            // Collect command properties
            let prop_len = buf.get_u8() as usize;
            let property = match String::from_utf8(buf.split_to(prop_len).to_vec()) {
                Ok(p) => p,
                Err(_) => return Err(CodecError::Decode("Invalid property identifier")),
            };

            let prop_val_len = buf.get_u32() as usize;
            let prop_value = buf.split_to(prop_val_len);
            properties.insert(property, prop_value);
        }
        Ok(Self {
            name: command,
            properties,
        })
    }
}

} // verus!
fn main() {}
