"""check driver: runs the Verus units and Kani harnesses a property depends on, classifies
failures into named obligations, applies known findings, writes evidence and replay files."""
import concurrent.futures as cf
import glob
import hashlib
import json
import os
import re
import subprocess
import sys
import time

HERE = os.path.dirname(os.path.abspath(__file__))
VERIF = os.path.dirname(HERE)
sys.path.insert(0, HERE)
import extract
import vrun
import kani_run
import props as P

REPO = os.environ.get('VERIF_REPO', '/repo')
EVID_DIR = os.environ.get('VERIF_EVIDENCE_DIR', os.path.join(VERIF, 'evidence'))
REPLAY_DIR = os.environ.get('VERIF_REPLAY_DIR', os.path.join(VERIF, 'replay'))
KANI_OFF = os.environ.get('VERIF_KANI', '') == 'off'   # selftest only: skip Kani (reported, never silently)


try:
    VOCAB = json.load(open(os.path.join(os.path.dirname(os.path.dirname(os.path.abspath(__file__))), 'units', 'vocabulary.json')))
except Exception:
    VOCAB = {}


def log(*a):
    print(*a, flush=True)


# ------------------------------------------------------------------ scope helpers
def in_scope(prop, unit, fn, kind, span_text):
    for (u, fn_rx, kinds, clause_rx) in prop['scope']:
        if u != unit or kind not in kinds:
            continue
        if not re.search(fn_rx, fn):
            continue
        if clause_rx and kind in ('post', 'inv-entry', 'inv-end', 'assert') and not re.search(clause_rx, span_text):
            continue
        return True
    return False


def fn_in_scope(prop, unit, fn):
    return any(u == unit and re.search(rx, fn) for (u, rx, _, _) in prop['scope'])


def clause_in_scope(prop, unit, fn, kw, clause):
    """is this spliced clause one of the property's obligations"""
    kind = {'ensures': 'post', 'loop-invariant': 'inv-end', 'await-invariant': 'assert', 'hint-assert': 'assert'}.get(kw)
    if kind is None:
        return False
    return in_scope(prop, unit, fn, kind, clause)


# ------------------------------------------------------------------ vacuity twins
def twin_override(target_fn):
    """returns a text_override adding `ensures false` to exactly one extracted function"""
    def f(text, u, linemap):
        info = next((x for x in u.fns if x.fn == target_fn), None)
        if info is None or not info.out_first:
            raise extract.Undecided('vacuity twin: cannot locate %s' % target_fn)
        lines = text.split('\n')
        # the body `{` of the function is the first line at/after out_first that is exactly "{" or ends the signature
        lo, hi = info.out_first - 1, info.out_last
        seg = lines[lo:hi]
        joined = '\n'.join(seg)
        # spliced spec block sits between signature and body; find first top-level `ensures`
        toks = extract.lex(joined)
        st = extract.sig(toks)
        # find fn keyword then body brace at depth 0
        k = next(i for i, t in enumerate(st) if t.kind == 'ident' and t.text == 'fn')
        depth = 0
        ens = None
        dec = None
        body = None
        i = k
        while i < len(st):
            t = st[i]
            if t.kind == 'punct' and t.text in ('(', '['):
                i = extract.match_close(st, i) + 1; continue
            if t.kind == 'punct' and t.text == '{':
                body = t; break
            if t.kind == 'ident' and t.text == 'ensures' and ens is None:
                ens = t
            if t.kind == 'ident' and t.text == 'decreases' and dec is None:
                dec = t
            i += 1
        if body is None:
            raise extract.Undecided('vacuity twin: no body for %s' % target_fn)
        if ens is not None:
            pos = ens.end
            new = joined[:pos] + ' false, ' + joined[pos:]
        elif dec is not None:
            new = joined[:dec.start] + 'ensures false,\n' + joined[dec.start:]
        else:
            new = joined[:body.start] + '\n ensures false,\n' + joined[body.start:]
        lines[lo:hi] = new.split('\n')
        return '\n'.join(lines)
    return f


def verus_fn_pattern(fn):
    m = re.match(r'^<(\w+) as .*>::(\w+)$', fn)
    if m:
        return '%s::%s' % (m.group(1), m.group(2))
    if fn.startswith('util::'):
        return fn.split('::', 1)[1]
    return fn


def run_twin(unit, fn):
    safe = re.sub(r'[^A-Za-z0-9]+', '_', fn)
    # fast path: verify only the twin function; fall back to the whole unit if Verus cannot single it out
    r = vrun.run_unit(unit, REPO, ['--verify-root', '--verify-function', verus_fn_pattern(fn)], text_override=twin_override(fn), tag='vac_' + safe)
    hit = [f for f in r.failures if f.fn == fn and f.kind == 'post' and re.match(r'^false\b', f.span_text)]
    if hit:
        return fn, 'ok', ''
    r = vrun.run_unit(unit, REPO, text_override=twin_override(fn), tag='vac_' + safe)
    if r.undecided and not r.failures:
        return fn, 'undecided', r.undecided
    hit = [f for f in r.failures if f.fn == fn and f.kind == 'post' and re.match(r'^false\b', f.span_text)]
    if hit:
        return fn, 'ok', ''
    return fn, 'vacuous', 'adding `ensures false` to %s did not produce a failing obligation' % fn


# ------------------------------------------------------------------ trusted-base scan
def scan_trusted(text):
    items = []
    for m in re.finditer(r'assume_specification(?:<[^\[]*>)?\s*\[\s*([^\]]+?)\s*\]', text):
        items.append('assume_specification ' + re.sub(r'\s+', ' ', m.group(1)))
    for m in re.finditer(r'#\[verifier::external_body\]\s*(?://[^\n]*\n\s*)*(?:pub(?:\([a-z]+\))?\s+)?(?:async\s+)?(fn|struct)\s+(\w+)', text):
        items.append('external_body %s %s' % (m.group(1), m.group(2)))
    for m in re.finditer(r'external_trait_specification\]\s*(?:#\[[^\]]*\]\s*)*pub trait (\w+)', text):
        items.append('external_trait_specification ' + m.group(1))
    for m in re.finditer(r'uninterp spec fn (\w+)', text):
        items.append('uninterpreted spec fn ' + m.group(1))
    for m in re.finditer(r'\baxiom fn (\w+)', text):
        items.append('axiom ' + m.group(1))
    for m in re.finditer(r'\b(admit|assume)\s*\(', text):
        items.append('%s() in proof text' % m.group(1))
    if 'global size_of usize == 8' in text:
        items.append('global size_of usize == 8 (64-bit target)')
    seen = []
    for i in items:
        if i not in seen:
            seen.append(i)
    return seen


# ------------------------------------------------------------------ known findings
def load_known():
    p = os.path.join(VERIF, 'known_findings.json')
    if not os.path.exists(p):
        return {'known': [], 'fixed': []}
    return json.load(open(p))


def match_known(known, prop_id, obligation):
    for k in known.get('known', []):
        if k.get('property') == prop_id and k.get('obligation') == obligation:
            return k
    return None


# ------------------------------------------------------------------ main check
def cleanup_work():
    import shutil
    work = os.environ.get('VERIF_WORK_DIR', os.path.join(VERIF, '.work'))
    shutil.rmtree(os.path.join(work, 'p%d' % os.getpid()), ignore_errors=True)


def check_property(pid, tier):
    try:
        return _check_property(pid, tier)
    finally:
        cleanup_work()


def _check_property(pid, tier):
    t0 = time.time()
    prop = P.PROPS[pid]
    seed = int(os.environ.get('VERIF_SEED', '0') or 0)
    os.makedirs(EVID_DIR, exist_ok=True)
    os.makedirs(REPLAY_DIR, exist_ok=True)
    for old in glob.glob(os.path.join(REPLAY_DIR, pid + '-*.json')):
        os.remove(old)
    known = load_known()
    undecided = []
    violations = []      # (obligation id, detail dict)
    known_hits = []
    unit_results = {}
    kani_results = {}
    kani_wall = 0.0
    kani_cmd = ''
    harnesses = prop.get('kani', {}).get(tier, prop.get('kani', {}).get('quick', []))
    if KANI_OFF:
        log('NOTE: VERIF_KANI=off - Kani harnesses %s skipped (selftest mode)' % [h for h, _ in harnesses])
        harnesses = []

    with cf.ThreadPoolExecutor(max_workers=10) as ex:
        futs = {u: ex.submit(vrun.run_unit, u, REPO) for u in prop['units']}
        kfut = None
        if harnesses:
            kfut = ex.submit(kani_run.run, [h for h, _ in harnesses], REPO, 8, prop.get('kani_timeout', {}).get(tier, 1500))
        for u, f in futs.items():
            unit_results[u] = f.result()
        # vacuity twins for the verified (non-trusted) functions in scope
        twin_futs = []
        for u, r in unit_results.items():
            if r.unit_obj is None:
                continue
            for info in r.unit_obj.fns:
                if info.trusted or not fn_in_scope(prop, u, info.fn):
                    continue
                twin_futs.append(ex.submit(run_twin, u, info.fn))
        twins = [f.result() for f in twin_futs]
        if kfut:
            kani_results, kani_wall, kani_cmd, build_err = kfut.result()
            if build_err and all(h.status != 'ok' for h in kani_results.values()):
                undecided.append('kani build failed: ' + build_err[:600])

    # ---- Verus results
    obligations = 0
    discharged = 0
    fns_under_contract = []
    fns_verified = []
    samples = []
    trusted = []
    solver_ms = {}
    extraction = []
    for u, r in unit_results.items():
        if r.text:
            for t in scan_trusted(r.text):
                if t not in trusted:
                    trusted.append(t)
        if r.undecided:
            undecided.append('unit %s: %s' % (u, r.undecided))
        if r.unit_obj is None:
            continue
        failed_by_fn = {}
        for f in r.failures:
            failed_by_fn.setdefault(f.fn, []).append(f)
        for info in r.unit_obj.fns:
            if not fn_in_scope(prop, u, info.fn):
                continue
            fns_under_contract.append('%s::%s%s' % (u, info.fn, ' (ASSUMED contract, external_body)' if info.trusted else ''))
            extraction.append({'unit': u, 'fn': info.fn, 'file': info.src_file, 'line': info.src_line, 'sha256': info.sha256, 'drops': info.drops})
            if info.trusted:
                continue
            # obligations of this fn that belong to this property
            mine = []
            safety_kinds = set()
            for (su, rx, kinds, _) in prop['scope']:
                if su == u and re.search(rx, info.fn):
                    safety_kinds |= (kinds & P.S)
            if safety_kinds:
                mine.append(('body-safety', 'no panic / overflow / failed callee precondition / non-termination in the body'))
            for kw, clause in info.clauses:
                if clause_in_scope(prop, u, info.fn, kw, clause):
                    mine.append((kw, clause))
            if not mine:
                continue
            fails = [f for f in failed_by_fn.get(info.fn, []) if in_scope(prop, u, f.fn, f.kind, f.span_text)]
            obligations += len(mine)
            if not fails and not r.undecided:
                discharged += len(mine)
                fns_verified.append('%s::%s' % (u, info.fn))
            elif not r.undecided:
                discharged += max(0, len(mine) - len(fails))
            if len(samples) < 12:
                for kw, clause in mine[:2]:
                    samples.append({'obligation': '%s::%s::%s' % (u, info.fn, kw), 'clause': clause[:300], 'backend': 'verus-z3',
                                    'source': '%s:%d' % (info.src_file, info.src_line)})
        # template-level proof functions (lemmas) in scope
        for path, fr in r.fn_results.items():
            short = path.split('::')[-1]
            if fr.get('mode') == 'proof' and fn_in_scope(prop, u, 'tmpl::' + short):
                obligations += 1
                if fr.get('success') and not r.undecided:
                    discharged += 1
                    fns_verified.append('%s::lemma %s' % (u, short))
                if len(samples) < 14:
                    samples.append({'obligation': '%s::lemma::%s' % (u, short), 'backend': 'verus-z3'})
        for path, fr in r.fn_results.items():
            solver_ms['%s:%s' % (u, path.split('::', 1)[-1])] = fr.get('time_ms')
        shape = {info.fn: info.shape_changed for info in r.unit_obj.fns if info.shape_changed and not info.trusted}
        # vocabulary rule: a body that calls something no body of this unit called when the contracts were written
        # (units/vocabulary.json) was never verified against that callee's specification; vstd and the prelude
        # specify many std functions only weakly, so a failure there cannot be attributed to the code
        voc = set(VOCAB.get(u, [])) | set(VOCAB.get('_reviewed', []))
        # ... or that the unit itself defines / specifies (stand-in methods, extracted functions, assume_specifications)
        defined_fns = set(re.findall(r'\bfn\s+([a-z_][A-Za-z0-9_]*)', r.text or ''))
        defined_fns |= set(re.findall(r'assume_specification[^\[]*\[[^\]]*?([a-z_][A-Za-z0-9_]*)\s*\]', r.text or ''))
        defined_types = set(re.findall(r'\b(?:struct|enum|trait|type)\s+([A-Z]\w*)', r.text or '')) | {'Self'}

        def in_vocabulary(c):
            if c in voc:
                return True
            if c.startswith('.'):
                return c[1:] in defined_fns
            if '::' in c:
                ty, nm = c.split('::', 1)
                return ty in defined_types and nm in defined_fns
            return c in defined_fns
        for info in r.unit_obj.fns:
            if info.trusted or info.fn in shape:
                continue
            new_callees = [c for c in info.callees if not in_vocabulary(c)]
            if new_callees:
                shape[info.fn] = 'calls outside the vocabulary the contracts were written against: ' + ', '.join(new_callees[:6])
        for f in r.failures:
            if not in_scope(prop, u, f.fn, f.kind, f.span_text):
                continue
            if f.fn in shape:
                # the body has a loop without invariant or a closure without exported ensures: Verus forgets facts the
                # code establishes there, so this failure cannot be attributed to the code
                msg = 'unit %s: %s: obligation not discharged, but the body %s -> cannot be decided by these contracts (%s)' % (u, f.fn, shape[f.fn], f.obligation[:160])
                if msg not in undecided:
                    undecided.append(msg)
                continue
            k = match_known(known, pid, f.obligation)
            if k:
                known_hits.append((f, k))
            else:
                violations.append((f.obligation, {'backend': 'verus', 'unit': u, 'fn': f.fn, 'kind': f.kind, 'message': f.message,
                                                   'clause_or_statement': f.span_text, 'origin': f.origin, 'exit': f.exit_text,
                                                   'verifier_output': f.rendered, 'generated_file': r.path, 'generated_line': f.line}))

    # ---- thorough tier: proof stability under other solver seeds + the self-test entries of this property
    thorough_extra = {}
    if tier == 'thorough' and not violations and not undecided:
        seeds = [7, 1234567]
        with cf.ThreadPoolExecutor(max_workers=8) as ex:
            futs = {(u, sd): ex.submit(vrun.run_unit, u, REPO, ['--smt-option', 'smt.random_seed=%d' % sd, '--smt-option', 'sat.random_seed=%d' % sd], None, 'seed%d' % sd)
                    for u in prop['units'] for sd in seeds}
            unstable = []
            for (u, sd), f in futs.items():
                r = f.result()
                if not r.ok:
                    unstable.append('%s@seed%d: %s' % (u, sd, r.undecided or [x.obligation for x in r.failures][:2]))
        thorough_extra['solver_seeds_tried'] = [0] + seeds
        thorough_extra['unstable'] = unstable
        for x in unstable:
            undecided.append('proof not stable under another solver seed (instability, not a violation): ' + x)
        if os.environ.get('VERIF_SELFTEST_IN_THOROUGH', '1') == '1' and not os.environ.get('VERIF_REPO'):
            import selftest
            sel = [m for m in selftest.M if m['prop'] == pid]
            outcomes = []
            with cf.ThreadPoolExecutor(max_workers=4) as ex:
                for m, outc, detail, secs, _ in ex.map(selftest.run_one, [m for m in sel if not m['kani']]):
                    outcomes.append({'id': m['id'], 'expect': m['expect'], 'outcome': outc, 'detail': detail})
            thorough_extra['selftest'] = outcomes
            for o in outcomes:
                if o['outcome'] != 'pass':
                    undecided.append('self-test entry %s did not behave as expected (%s %s): the check may have lost strength' % (o['id'], o['outcome'], o['detail']))
    # ---- vacuity
    vac_ok = 0
    for fn, st, why in twins:
        if st == 'ok':
            vac_ok += 1
        else:
            undecided.append('vacuity guard (%s): %s' % (fn, why))

    # ---- Kani results
    bounded_components = []
    kani_ev = []
    for h, cls in harnesses:
        hr = kani_results.get(h)
        if hr is None:
            undecided.append('kani harness %s did not run' % h)
            continue
        kani_ev.append({'harness': h, 'class': cls, 'status': hr.status, 'checks': hr.checks, 'failed': hr.failed,
                        'covers': '%d/%d' % (hr.covers_ok, hr.covers_total), 'cbmc_time_s': round(hr.time_s, 2)})
        solver_ms['kani:' + h] = int(hr.time_s * 1000)
        if hr.status == 'ok':
            if cls == 'complete':
                obligations += hr.checks
                discharged += hr.checks
                fns_verified.append('kani::%s (complete)' % h)
                if len(samples) < 16:
                    samples.append({'obligation': 'kani::%s' % h, 'backend': 'kani-cbmc (complete: %s)' % P.KANI_DOMAIN.get(h, ''), 'checks': hr.checks})
            else:
                bounded_components.append({'harness': h, 'bound': P.KANI_DOMAIN.get(h, ''), 'checks': hr.checks, 'status': 'passed (BOUNDED, not counted as proved)'})
        elif hr.status == 'failed':
            ob = 'kani::%s::%s' % (h, '; '.join(hr.failed_checks)[:200])
            k = match_known(known, pid, ob)
            if k:
                known_hits.append((None, k))
            else:
                violations.append((ob, {'backend': 'kani', 'harness': h, 'class': cls, 'failed_checks': hr.failed_checks,
                                        'verifier_output': hr.raw[-3000:]}))
        else:
            undecided.append('kani harness %s: %s' % (h, hr.reason))

    # ---- verdict
    wall = time.time() - t0
    for f, k in known_hits:
        log('KNOWN-FINDING: property=%s %s' % (pid, k.get('what', k.get('obligation'))))
    exit_code = 0
    viol_lines = []
    if violations:
        # witness search (counterexample from Kani concrete playback where a cex harness exists)
        for n, (ob, detail) in enumerate(violations):
            witness = find_witness(pid, ob, detail)
            path = os.path.join(REPLAY_DIR, '%s-%d.json' % (pid, n + 1))
            doc = {'property': pid, 'obligation': ob, 'detail': detail, 'witness': witness,
                   'repo_head': git_head(), 'how_to_replay': './check replay %s' % path}
            json.dump(doc, open(path, 'w'), indent=1)
            line = 'VIOLATION property=%s replay=%s' % (pid, path)
            if not witness:
                line += ' obligation=%s no-failing-input-found' % json.dumps(ob)
            else:
                line += ' obligation=%s' % json.dumps(ob)
            viol_lines.append(line)
        exit_code = 1
    elif undecided:
        exit_code = 2

    ev = {
        'property_id': pid, 'tier': tier, 'seed': seed, 'level': 'proof',
        'coverage': {
            'obligations': obligations, 'discharged': discharged,
            'checker_cmd': '; '.join([r.cmd for r in unit_results.values() if r.cmd] + ([kani_cmd] if kani_cmd else [])),
            'trusted_base': trusted + P.COMMON_TRUSTED + prop.get('trusted', []),
            'rule': 'one obligation per (function, spliced ensures / loop-invariant / await-invariant clause) plus one body-safety obligation per function '
                    '(every panic site, arithmetic operation, callee precondition and decreases measure in its body), counted from the text generated on this run; '
                    'a function counts as discharged only if Verus reported no failing obligation of this property in it; each passed check of a COMPLETE Kani harness '
                    'counts as one obligation; bounded Kani harnesses are listed separately and never counted',
            'samples': samples,
            'functions_under_contract': fns_under_contract,
            'functions_verified': fns_verified,
            'extraction': extraction,
            'kani': kani_ev,
            'bounded_components': bounded_components,
            'vacuity_guard': {'ensures_false_twins_run': len(twins), 'twins_that_failed_as_required': vac_ok},
            'solver_time_ms': solver_ms,
            'verus_wall_s': {u: round(r.wall_s, 2) for u, r in unit_results.items()},
            'kani_wall_s': round(kani_wall, 2),
            'not_covered': prop.get('not_covered', []),
            'undecided': undecided,
            'thorough_extra': thorough_extra,
            'known_findings_suppressed': [k.get('obligation') for _, k in known_hits],
            'exhaustive': False,
        },
        'assumptions': prop.get('assumptions', []) + P.COMMON_ASSUMPTIONS,
        'wall_s': round(wall, 2),
        'violations': len(violations),
    }
    json.dump(ev, open(os.path.join(EVID_DIR, pid + '.json'), 'w'), indent=1)
    for l in viol_lines:
        log(l)
    for u in undecided:
        log('UNDECIDED: ' + u)
    log('%s %s: %d/%d obligations discharged, %d violation(s), %d undecided, %.1fs -> exit %d'
        % (pid, tier, discharged, obligations, len(violations), len(undecided), wall, exit_code))
    return exit_code


def git_head():
    try:
        return subprocess.run(['git', '-C', REPO, 'rev-parse', 'HEAD'], capture_output=True, text=True).stdout.strip()
    except Exception:
        return ''


def find_witness(pid, ob, detail):
    """try to obtain a concrete failing input for a failed obligation (Kani concrete playback on the
    counterexample harness registered for that function); None when no such harness exists or it passes"""
    if detail.get('backend') == 'kani':
        h = detail['harness']
        r, _, _, _ = kani_run.run([h], REPO, 1, 900, playback=True)
        hr = r.get(h)
        if hr and hr.status == 'failed':
            return {'kind': 'kani-concrete-playback', 'harness': h, 'failed_checks': hr.failed_checks, 'playback_test': hr.playback}
        return None
    fn = detail.get('fn', '')
    for rx, harness in P.CEX_HARNESS:
        if re.search(rx, '%s::%s' % (detail.get('unit'), fn)):
            r, _, _, _ = kani_run.run([harness], REPO, 1, 900, playback=True)
            hr = r.get(harness)
            if hr and hr.status == 'failed':
                return {'kind': 'kani-concrete-playback', 'harness': harness, 'failed_checks': hr.failed_checks, 'playback_test': hr.playback}
    return None


def replay(path):
    doc = json.load(open(path))
    pid = doc['property']
    log('replaying %s: obligation %s' % (pid, doc['obligation']))
    d = doc['detail']
    if d.get('backend') == 'kani':
        r, _, _, _ = kani_run.run([d['harness']], REPO, 1, 1500, playback=True)
        hr = r[d['harness']]
        log('harness %s: %s %s' % (hr.name, hr.status, hr.failed_checks))
        if hr.playback:
            log(hr.playback)
        return 1 if hr.status == 'failed' else (0 if hr.status == 'ok' else 2)
    r = vrun.run_unit(d['unit'], REPO)
    still = [f for f in r.failures if f.obligation == doc['obligation']]
    if still:
        log('obligation still fails on the current tree:')
        log(still[0].rendered)
        w = doc.get('witness')
        if w:
            log('witness (%s):' % w.get('kind'))
            log(w.get('playback_test', ''))
        return 1
    if r.undecided:
        log('UNDECIDED: ' + r.undecided)
        return 2
    log('obligation is discharged on the current tree')
    return 0


def main(argv):
    if not argv:
        print(__doc__)
        return 2
    if argv[0] == 'replay':
        if len(argv) < 2:
            print('usage: ./check replay <replay file>')
            return 2
        return replay(argv[1])
    if argv[0] == 'selftest':
        import selftest
        return selftest.main(argv[1:])
    pid = argv[0]
    tier = argv[1] if len(argv) > 1 else os.environ.get('VERIF_TIER', 'quick')
    if pid not in P.PROPS:
        print('unknown or not-applicable property', pid)
        return 2
    try:
        return check_property(pid, tier)
    except Exception as e:     # tool failure is never a violation
        import traceback
        traceback.print_exc()
        log('UNDECIDED: internal error in the check driver: %r' % e)
        return 2
