// Verus unit `fairqueue`: src/fair_queue.rs in SEQUENTIAL scope (one poll at a time, nobody else holds the lock).
// Serves C14 (everything a pending recv needs lives in the queue, not in the future; when the queue reports
// Pending the CURRENT task's waker is the registered one) and documents what of C05 is checkable per call
// (a checked-out stream is always put back unless it ended; an item is labelled with the key of the stream it
// came from).  Schedules, wake-ups from other threads and fairness stay not applicable (C05, C06).
#![allow(unused_imports, dead_code, unused_variables, unused_mut, unused_parens)]
use vstd::prelude::*;
use std::pin::Pin;
verus! {
global size_of usize == 8;

// ---- std / futures stand-ins (ASSUMED contracts) ----
#[verifier::external_type_specification]
#[verifier::external_body]
#[verifier::accept_recursive_types(P)]
pub struct ExPin<P>(Pin<P>);
pub assume_specification<T> [Box::<T>::pin] (x: T) -> (r: Pin<Box<T>>)
    ensures stream_of(r) == x;
/// the stream object inside its pinned box
pub uninterp spec fn stream_of<S>(p: Pin<Box<S>>) -> S;

/// Stand-in for `Clone` in THIS unit (shadows the std trait): cloning yields an equal value.  For the key type
/// this is the ASSUMPTION "cloning a key yields the key" (true for PeerIdentity: verified `ensures r == *self`
/// in the other units); for the waker and the queue handle it says a clone is another handle on the same thing.
pub trait Clone: Sized {
    fn clone(&self) -> (r: Self)
        ensures r == *self;
}
pub type Arc<T> = Box<T>;
pub trait Hash {}
pub enum Poll<T> { Ready(T), Pending }
/// a waker is identified by the task it wakes
pub struct Waker { pub task: Ghost<int> }
impl Waker {
    #[verifier::external_body]
    pub fn wake_by_ref(&self) { unimplemented!() }
}
impl Clone for Waker {
    #[verifier::external_body]
    fn clone(&self) -> (r: Self) { unimplemented!() }
}
pub struct Context<'a> { pub w: &'a Waker }
impl<'a> Context<'a> {
    pub fn waker(&self) -> (r: &'a Waker) ensures r == self.w { self.w }
    pub fn from_waker(w: &'a Waker) -> (r: Context<'a>) ensures r.w == w { Context { w } }
}
/// futures::task::waker_ref: the Waker that calls StreamWaker::wake_by_ref (identity irrelevant here)
#[verifier::external_body]
pub fn waker_ref<W>(w: &Arc<W>) -> (r: Waker) { unimplemented!() }

pub mod atomic {
    pub struct AtomicUsize { _p: u8 }
    pub enum Ordering { Relaxed }
    impl AtomicUsize {
        // a ticket; monotonicity (fairness, C06) is not modelled
        #[verifier::external_body]
        pub fn fetch_add(&self, v: usize, o: Ordering) -> usize { unimplemented!() }
    }
}
/// std BinaryHeap as a bag: pop yields SOME element (the order is fairness, not modelled)
#[verifier::external_body]
#[verifier::accept_recursive_types(T)]
pub struct BinaryHeap<T> { _t: core::marker::PhantomData<T> }
impl<T> BinaryHeap<T> {
    pub uninterp spec fn view(&self) -> Seq<T>;
    #[verifier::external_body]
    pub fn pop(&mut self) -> (r: Option<T>)
        ensures
            old(self)@.len() == 0 ==> r is None && final(self)@ == old(self)@,
            old(self)@.len() > 0 ==> r is Some && final(self)@.len() == old(self)@.len() - 1,
    { unimplemented!() }
    #[verifier::external_body]
    pub fn push(&mut self, v: T)
        ensures final(self)@.len() == old(self)@.len() + 1,
    { unimplemented!() }
}
/// std HashMap as a map (generic key: no hashing model needed at this level)
#[verifier::external_body]
#[verifier::accept_recursive_types(K)]
#[verifier::accept_recursive_types(V)]
pub struct HashMap<K, V> { _t: core::marker::PhantomData<(K, V)> }
impl<K, V> HashMap<K, V> {
    pub uninterp spec fn view(&self) -> Map<K, V>;
    #[verifier::external_body]
    pub fn insert(&mut self, k: K, v: V)
        ensures final(self)@ == old(self)@.insert(k, v),
    { unimplemented!() }
    #[verifier::external_body]
    pub fn remove(&mut self, k: &K) -> (r: Option<V>)
        ensures
            !old(self)@.contains_key(*k) ==> r is None && final(self)@ == old(self)@,
            old(self)@.contains_key(*k) ==> r == Some(old(self)@[*k]) && final(self)@ == old(self)@.remove(*k),
    { unimplemented!() }
    #[verifier::external_body]
    pub fn is_empty(&self) -> (r: bool)
        ensures r == (self@.dom() =~= Set::<K>::empty()),
    { unimplemented!() }
    #[verifier::external_body]
    pub fn contains_key(&self, k: &K) -> (r: bool)
        ensures r == self@.contains_key(*k),
    { unimplemented!() }
}
/// parking_lot::Mutex as plain ownership: lock() is a mutable borrow of the content
pub struct Mutex<T> { pub inner: T }
impl<T> Mutex<T> {
    #[verifier::external_body]
    pub fn lock(&mut self) -> (r: &mut T)
        ensures *r == old(self).inner, final(self).inner == *final(r),
    { unimplemented!() }
}
impl<T> Clone for Box<Mutex<T>> {
    // a second handle on the shared queue (only stored inside the per-stream waker)
    #[verifier::external_body]
    fn clone(&self) -> (r: Self) { unimplemented!() }
}

/// a stream as far as the queue is concerned: polling it may change it and yields Pending, an item, or the end
pub trait Stream: Sized {
    type Item;
    /// items this stream has yielded so far
    spec fn yielded(&self) -> Seq<Self::Item>;
    /// the stream has ended (its connection is closed and everything was yielded)
    spec fn exhausted(&self) -> bool;
}
// D5 (expression): `io_stream.as_mut().poll_next(&mut cx)` goes through Pin::as_mut (DerefMut bound, outside Verus).
// Replaced by this stub: polling may yield Pending (stream keeps what it yielded), one more item, or the end.
#[verifier::external_body]
pub fn assumed_poll_stream<S: Stream>(s: &mut Pin<Box<S>>, cx: &mut Context<'_>) -> (r: Poll<Option<S::Item>>)
    ensures
        r is Pending ==> stream_of(*final(s)).yielded() == stream_of(*old(s)).yielded(),
        r matches Poll::Ready(Some(x)) ==> stream_of(*final(s)).yielded() == stream_of(*old(s)).yielded().push(x),
        // a stream reports its end only when it has ended; within one call of the queue that does not change
        r matches Poll::Ready(None) ==> stream_of(*old(s)).exhausted(),
        !(r matches Poll::Ready(None)) ==> stream_of(*final(s)).exhausted() == stream_of(*old(s)).exhausted(),
{ unimplemented!() }

// partial spec (says nothing about the closure's value): an occupied slot keeps its content
pub assume_specification<T, F: FnOnce() -> T> [Option::<T>::get_or_insert_with] (o: &mut Option<T>, f: F) -> (r: &mut T)
    ensures
        *old(o) matches Some(v) ==> *final(o) == Some(*final(r)) && *r == v,
        *old(o) is None ==> *final(o) == Some(*final(r)),
;

// ---- the real items ----
// futures' default `ArcWake::wake` is `wake_by_ref`; an override would be a second wake path no contract reads
//@@ closed-impl src/fair_queue.rs :: impl<S, K> ArcWake for StreamWaker<S, K> where S: Send, K: Clone + Send + Sync, :: wake_by_ref
//@ item src/fair_queue.rs :: struct QueueInner
//@ end
//@ item src/fair_queue.rs :: struct FairQueue
//@ end
//@ item src/fair_queue.rs :: struct ReadyEvent
//@ drop-derive Clone
//@ end
impl<K: Clone> Clone for ReadyEvent<K> {
    #[verifier::external_body]
    fn clone(&self) -> (r: Self) { unimplemented!() }
}
//@ item src/fair_queue.rs :: struct StreamWaker
//@ end

impl<S, K: Clone> QueueInner<S, K> {
    /// which pinned stream is registered under which key
    pub closed spec fn sv(&self) -> Map<K, Pin<Box<S>>> { self.streams@ }
    /// number of entries in the ready heap
    pub closed spec fn rq(&self) -> nat { self.ready_queue@.len() }
    /// the waker of the task that is waiting on the queue
    pub closed spec fn wk(&self) -> Option<Waker> { self.waker }
//@ item src/fair_queue.rs :: impl<S, K: Clone + Eq + Hash> QueueInner<S, K> / fn insert
//@ name QueueInner::insert
//@ spec
//@|        ensures
//@|            final(self).sv().dom() =~= old(self).sv().dom().insert(k),
//@|            stream_of(final(self).sv()[k]) == s,
//@|            forall|q: K| q != k && old(self).sv().contains_key(q) ==> final(self).sv()[q] == old(self).sv()[q],
//@|            final(self).rq() == old(self).rq() + 1,
//@|            final(self).wk() == old(self).wk(),
//@ end
//@ item src/fair_queue.rs :: impl<S, K: Clone + Eq + Hash> QueueInner<S, K> / fn remove
//@ name QueueInner::remove
//@ spec
//@|        ensures
//@|            final(self).sv() == old(self).sv().remove(*k),
//@|            final(self).rq() == old(self).rq(),
//@|            final(self).wk() == old(self).wk(),
//@ end
}

pub trait Send {}
pub trait Sync {}
impl<S, K: Clone> StreamWaker<S, K> {
    pub closed spec fn q(&self) -> QueueInner<S, K> { self.inner.inner }
// a stream's waker fires: its ready event is queued and the waiting task (if any) is woken and forgotten
//@ item src/fair_queue.rs :: impl<S, K> ArcWake for StreamWaker<S, K> where S: Send, K: Clone + Send + Sync, / fn wake_by_ref
//@ name StreamWaker::wake_by_ref
//@ inherent
//@ param-mut arc_self
//@ spec
//@|        ensures
//@|            final(arc_self).q().rq() == old(arc_self).q().rq() + 1,
//@|            final(arc_self).q().wk() is None,
//@|            final(arc_self).q().sv() == old(arc_self).q().sv(),
//@ end
}

/// every stream of `m0` is still registered in `m1` under the same key with at least what it had yielded,
/// except the ones in `ended`
pub open spec fn streams_kept<S: Stream, K>(m0: Map<K, Pin<Box<S>>>, m1: Map<K, Pin<Box<S>>>) -> bool {
    &&& m1.dom().subset_of(m0.dom())
}

// ---- C05 whole-history corollary over the poll_next contract ----
/// one poll_next call as its postcondition describes it, over "what each registered stream has yielded so far":
/// `out` is the pair it returned (None for Pending / Ready(None))
pub open spec fn qstep<K, T>(a: Map<K, Seq<T>>, b: Map<K, Seq<T>>, out: Option<(K, T)>) -> bool {
    &&& b.dom().subset_of(a.dom())
    &&& out matches Some(kv) ==> a.contains_key(kv.0) && b.contains_key(kv.0) && b[kv.0] == a[kv.0].push(kv.1)
    &&& forall|q: K| #[trigger] b.contains_key(q) && !(out is Some && out->Some_0.0 == q) ==> b[q] == a[q]
}
/// the items delivered for peer `q` by a sequence of polls, in delivery order
pub open spec fn delivered<K, T>(outs: Seq<Option<(K, T)>>, q: K) -> Seq<T>
    decreases outs.len()
{
    if outs.len() == 0 { Seq::empty() } else {
        let d = delivered(outs.drop_last(), q);
        match outs.last() { Some(kv) => if kv.0 == q { d.push(kv.1) } else { d }, None => d }
    }
}
/// a history of polls: states[i] --outs[i]--> states[i+1]
pub open spec fn qtrace<K, T>(states: Seq<Map<K, Seq<T>>>, outs: Seq<Option<(K, T)>>) -> bool {
    &&& states.len() == outs.len() + 1
    &&& forall|i: int| 0 <= i < outs.len() ==> qstep(#[trigger] states[i], states[i + 1], outs[i])
}
/// Exactly once, in order, per peer: for every stream still registered after any number of polls, what it has
/// yielded is what it had yielded before the history plus exactly the items delivered for its key, in delivery
/// order - no item read from a stream is lost, none is delivered twice or under another key, none out of order.
pub proof fn lemma_trace_exactly_once_in_order<K, T>(states: Seq<Map<K, Seq<T>>>, outs: Seq<Option<(K, T)>>, q: K)
    requires qtrace(states, outs), states.last().contains_key(q),
    ensures
        states[0].contains_key(q),
        states.last()[q] == states[0][q] + delivered(outs, q),
    decreases outs.len()
{
    if outs.len() == 0 {
        assert(states.last() == states[0]);
        assert(delivered(outs, q) =~= Seq::<T>::empty());
        assert(states[0][q] + Seq::<T>::empty() =~= states[0][q]);
    } else {
        let n = outs.len() as int;
        let st = states.drop_last(); let ou = outs.drop_last();
        assert(qstep(states[n - 1], states[n], outs[n - 1]));
        assert(states.last() == states[n]);
        assert(states[n - 1].contains_key(q));
        assert(st.last() == states[n - 1]);
        assert forall|i: int| 0 <= i < ou.len() implies qstep(#[trigger] st[i], st[i + 1], ou[i]) by {
            assert(st[i] == states[i] && st[i + 1] == states[i + 1] && ou[i] == outs[i]);
        }
        lemma_trace_exactly_once_in_order(st, ou, q);
        assert(st[0] == states[0]);
        let d = delivered(ou, q);
        match outs.last() {
            Some(kv) => {
                if kv.0 == q {
                    assert(states[n][q] == states[n - 1][q].push(kv.1));
                    assert((states[0][q] + d).push(kv.1) =~= states[0][q] + d.push(kv.1));
                } else {
                    assert(states[n][q] == states[n - 1][q]);
                }
            }
            None => { assert(states[n][q] == states[n - 1][q]); }
        }
    }
}
/// what every registered stream has yielded so far (the queue state as far as C05 is concerned)
pub open spec fn yview<S: Stream, K>(m: Map<K, Pin<Box<S>>>) -> Map<K, Seq<S::Item>> {
    Map::new(m.dom(), |k: K| stream_of(m[k]).yielded())
}
/// the (key, item) pair a poll returned, if any
pub open spec fn out_of<K, T>(r: Poll<Option<(K, T)>>) -> Option<(K, T)> {
    match r { Poll::Ready(Some(kv)) => Some(kv), _ => None }
}

impl<S, T, K: Clone> FairQueue<S, K> where S: Stream<Item = T> {
    pub closed spec fn q(&self) -> QueueInner<S, K> { self.inner.inner }
    pub closed spec fn blocking(&self) -> bool { self.block_on_no_clients }
    #[verifier::external_body]
    fn get_mut(&mut self) -> (r: &mut Self)
        ensures *r == *old(self), *final(self) == *final(r),
    { unimplemented!() }

//@ item src/fair_queue.rs :: impl<S, T, K> Stream for FairQueue<S, K> where T: Send, S: Stream<Item = T> + Send + 'static, K: Eq + Hash + Unpin + Clone + Send + Sync + 'static, / fn poll_next
//@ name FairQueue::poll_next
//@ inherent
//@ receiver-mut
//@ attr
//@|    #[verifier::loop_isolation(false)]
//@ ret r
//@ subst-re "(\w+)\.as_mut\(\)\.poll_next\(&mut (\w+)\)"
//@|    assumed_poll_stream(&mut \1, &mut \2)
//@ spec
//@|        ensures
//@|            // C14 / C06 (per call): the queue only reports Pending after registering the CURRENT task's waker,
//@|            // with nothing left in the ready heap
//@|            r is Pending ==> final(self).q().wk() == Some(*old(cx).w) && final(self).q().rq() == 0,
//@|            // Ready(None) only for a queue without streams that must not block
//@|            r matches Poll::Ready(None) ==> final(self).q().sv().dom() =~= Set::<K>::empty() && !old(self).blocking(),
//@|            // no stream is invented, and nothing is registered under a new key
//@|            final(self).q().sv().dom().subset_of(old(self).q().sv().dom()),
//@|            // an item is labelled with the key of the stream it came from, that stream is put back under the same
//@|            // key having yielded exactly this one more item, and it re-enters the ready heap
//@|            r matches Poll::Ready(Some(kv)) ==> old(self).q().sv().contains_key(kv.0)
//@|                && final(self).q().sv().contains_key(kv.0)
//@|                && stream_of(final(self).q().sv()[kv.0]).yielded() == stream_of(old(self).q().sv()[kv.0]).yielded().push(kv.1)
//@|                && final(self).q().rq() >= 1,
//@|            // a stream that stays registered has lost nothing it yielded (polled-Pending streams are put back as they are)
//@|            forall|q: K| final(self).q().sv().contains_key(q) && !(r matches Poll::Ready(Some(kv)) && kv.0 == q)
//@|                ==> stream_of(#[trigger] final(self).q().sv()[q]).yielded() == stream_of(old(self).q().sv()[q]).yielded(),
//@|            final(self).blocking() == old(self).blocking(),
//@|            // C05 (per call): a registered stream is dropped only if it had ended - a stream that is merely not
//@|            // ready (Pending) or that yielded an item is always put back
//@|            forall|q: K| old(self).q().sv().contains_key(q) && !final(self).q().sv().contains_key(q)
//@|                ==> stream_of(#[trigger] old(self).q().sv()[q]).exhausted(),
//@|            // C05: the same facts as ONE step of the history relation the trace lemma is proved over
//@|            qstep(yview(old(self).q().sv()), yview(final(self).q().sv()), out_of(r)),
//@ loop 1
//@|            invariant
//@|                fair_queue.blocking() == old(self).blocking(),
//@|                fair_queue.q().sv().dom().subset_of(old(self).q().sv().dom()),
//@|                forall|q: K| fair_queue.q().sv().contains_key(q)
//@|                    ==> stream_of(#[trigger] fair_queue.q().sv()[q]).yielded() == stream_of(old(self).q().sv()[q]).yielded(),
//@|                forall|q: K| fair_queue.q().sv().contains_key(q)
//@|                    ==> stream_of(#[trigger] fair_queue.q().sv()[q]).exhausted() == stream_of(old(self).q().sv()[q]).exhausted(),
//@|                forall|q: K| old(self).q().sv().contains_key(q) && !fair_queue.q().sv().contains_key(q)
//@|                    ==> stream_of(#[trigger] old(self).q().sv()[q]).exhausted(),
//@|            decreases fair_queue.q().rq(),
//@ end
}

} // verus!
fn main() {}
