// ---- codec value types (real definitions) ----
#[verifier::external_type_specification]
#[verifier::external_body]
pub struct ExIoError(std::io::Error);

//@ item src/codec/error.rs :: enum CodecError
//@ end
//@ item src/codec/error.rs :: type CodecResult
//@ end
//@ item src/codec/mechanism.rs :: enum ZmqMechanism
//@ end
//@ item src/codec/greeting.rs :: type ZmtpVersion
//@ end
//@ item src/codec/greeting.rs :: struct ZmqGreeting
//@ end
//@ item src/codec/command.rs :: enum ZmqCommandName
//@ end
//@ item src/codec/command.rs :: struct ZmqCommand
//@ end
//@ item src/codec/mod.rs :: enum Message
//@ end
