"""Mechanical extraction of real zmq.rs items into Verus units.

A unit template (units/<unit>.rs) is ordinary Verus text plus directive blocks

    //@ item src/codec/zmq_codec.rs :: fn encode_frame
    //@ ret r
    //@ spec
    //@|     ensures ...
    //@ hint end
    //@|     proof { ... }
    //@ end

Each block is replaced by the CURRENT text of the selected item in /repo with the
contract clauses spliced in.  The executable tokens are copied byte for byte, apart
from the documented drops D1..D5 (DESIGN.md 2.1); every drop is recorded.

Nothing here evaluates or rewrites expressions.
"""
import hashlib
import json
import os
import re
import sys
from dataclasses import dataclass, field
from typing import List, Optional, Tuple

sys.path.insert(0, os.path.dirname(__file__))
import rustscan
from rustscan import lex, sig, match_close, Tok


import threading
_tls = threading.local()


class Undecided(Exception):
    """lost anchor / unsupported shape: the check must exit 2, never 1"""


KEEP_DERIVES = {'Clone', 'Copy', 'PartialEq', 'Eq', 'Default'}
KEEP_ATTR_PREFIX = ('#[repr', '#[default]', '#[verifier', '#[derive')


@dataclass
class Directive:
    kind: str
    arg: str
    payload: List[str] = field(default_factory=list)
    line: int = 0


@dataclass
class Edit:
    pos: int            # byte offset in the source file
    end: int            # == pos for pure insertions
    text: str           # replacement text
    origin: str         # label for the line map ('real' keeps source mapping)
    drop: Optional[str] = None


@dataclass
class FnInfo:
    unit: str
    item: str           # selector
    fn: str             # display name, e.g. ZmqCodec::decode
    src_file: str
    src_line: int
    sha256: str
    drops: List[str]
    out_first: int = 0  # line range in generated file
    out_last: int = 0
    n_requires: int = 0
    n_ensures: int = 0
    n_invariants: int = 0
    n_asserts: int = 0
    trusted: bool = False   # external_body
    clauses: List[str] = field(default_factory=list)
    n_loops: int = 0        # loops in the real body
    n_closures: int = 0     # closures in the real body that no directive annotates or replaces (Verus exports nothing about their result)
    shape_changed: str = ''  # non-empty: the body has loops / closures the contracts were not written for
    callees: List[str] = field(default_factory=list)   # names the real body calls (functions, methods, macros)


def line_of(src: str, pos: int) -> int:
    return src.count('\n', 0, pos) + 1


def parse_template(text: str):
    """yield ('text', str, first_line_no) | ('item', file, selector, [Directive], line)"""
    lines = text.split('\n')
    i = 0
    buf = []
    buf_start = 1
    while i < len(lines):
        ln = lines[i]
        m = re.match(r'\s*//@ item (\S+) :: (.+?)\s*$', ln)
        if not m:
            if not buf:
                buf_start = i + 1
            buf.append(ln); i += 1; continue
        if buf:
            yield ('text', '\n'.join(buf) + '\n', buf_start); buf = []
        file, selector = m.group(1), m.group(2)
        start_line = i + 1
        dirs = []
        i += 1
        while True:
            if i >= len(lines):
                raise Undecided('template: unterminated item block at line %d' % start_line)
            ln = lines[i]
            if re.match(r'\s*//@ end\s*$', ln):
                i += 1; break
            mp = re.match(r'\s*//@\|(.*)$', ln)
            if mp:
                if not dirs:
                    raise Undecided('template: payload before directive at line %d' % (i + 1))
                dirs[-1].payload.append(mp.group(1)); i += 1; continue
            md = re.match(r'\s*//@ (\S+)\s*(.*?)\s*$', ln)
            if md:
                dirs.append(Directive(md.group(1), md.group(2), [], i + 1)); i += 1; continue
            if ln.strip() == '' or ln.strip().startswith('//'):
                i += 1; continue
            raise Undecided('template: unexpected line %d inside item block: %r' % (i + 1, ln))
        yield ('item', file, selector, dirs, start_line)
    if buf:
        yield ('text', '\n'.join(buf), buf_start)


def fn_parts(src: str, it: rustscan.Item):
    """tokens of a fn item (absolute offsets)"""
    toks = lex(src[it.start:it.end])
    for t in toks:
        t.start += it.start; t.end += it.start
    return toks


def filter_attrs(src: str, it: rustscan.Item, edits: List[Edit], drops: List[str], extra_drop=()):
    """D3: drop doc comments and attributes Verus does not know; thin out derives"""
    for (a, b) in it.attrs:
        txt = src[a:b]
        if txt.startswith('#[derive'):
            inner = txt[txt.index('(') + 1: txt.rindex(')')]
            names = [x.strip() for x in inner.split(',') if x.strip()]
            keep = [x for x in names if x.split('::')[-1] in KEEP_DERIVES and x.split('::')[-1] not in extra_drop]
            gone = [x for x in names if x not in keep]
            if gone:
                drops.append('D3 derive(%s)' % ','.join(gone))
                new = ('#[derive(%s)]' % ', '.join(keep)) if keep else ''
                edits.append(Edit(a, b, new, 'real', 'D3'))
            continue
        if txt.startswith(KEEP_ATTR_PREFIX):
            continue
        drops.append('D3 ' + re.sub(r'\s+', ' ', txt)[:40])
        edits.append(Edit(a, b, '', 'real', 'D3'))


def strip_inner_attrs(src: str, lo: int, hi: int, edits: List[Edit], drops: List[str]):
    """D3 inside struct/enum bodies: #[error(..)], #[from], doc comments on variants / fields"""
    toks = lex(src[lo:hi])
    for t in toks:
        t.start += lo; t.end += lo
    st = [t for t in toks if t.kind != 'ws']
    i = 0
    while i < len(st):
        t = st[i]
        if t.kind == 'comment':
            if t.text.startswith('///') or t.text.startswith('/**'):
                edits.append(Edit(t.start, t.end, '', 'real', 'D3'))
            i += 1; continue
        if t.kind == 'punct' and t.text == '#' and i + 1 < len(st) and st[i + 1].text == '[':
            k = match_close(st, i + 1)
            txt = src[t.start:st[k].end]
            if not txt.startswith(KEEP_ATTR_PREFIX):
                drops.append('D3 ' + re.sub(r'\s+', ' ', txt)[:40])
                edits.append(Edit(t.start, st[k].end, '', 'real', 'D3'))
            i = k + 1; continue
        i += 1


def find_loops(st: List[Tok], lo: int, hi: int):
    """indices (into st) of the opening brace of each loop body, in source order"""
    res = []
    i = lo
    while i < hi:
        t = st[i]
        if t.kind == 'ident' and t.text in ('loop', 'while', 'for'):
            # `for` in `impl X for Y` / HRTB cannot occur inside a fn body of this code base
            j = i + 1
            while j < hi:
                tj = st[j]
                if tj.kind == 'punct' and tj.text in ('(', '['):
                    j = match_close(st, j) + 1; continue
                if tj.kind == 'punct' and tj.text == '{':
                    break
                j += 1
            if j >= hi:
                raise Undecided('loop without body')
            res.append((i, j))
        i += 1
    return res


def stmt_start(st: List[Tok], idx: int, lo: int) -> int:
    """token index where the statement containing st[idx] starts (after the previous ; { } at the same depth)"""
    depth = 0
    j = idx - 1
    while j >= lo:
        t = st[j]
        if t.kind == 'punct':
            if t.text in (')', ']', '}'):
                if depth == 0 and t.text == '}':
                    return j + 1
                depth += 1
            elif t.text in ('(', '[', '{'):
                if depth == 0:
                    if t.text == '{':
                        return j + 1
                    # inside an argument list / index: keep walking outwards
                    j -= 1
                    continue
                depth -= 1
            elif t.text == ';' and depth == 0:
                return j + 1
        j -= 1
    return lo


def process_fn(src: str, src_file: str, it: rustscan.Item, dirs: List[Directive], parent: Optional[rustscan.Item],
               edits: List[Edit], info: FnInfo, state_fields: List[str]):
    """compute the edits for one fn item"""
    toks = fn_parts(src, it)
    st = sig(toks)
    # locate fn keyword, body
    body_open_i = next(i for i, t in enumerate(st) if t.start == it.body_open) if it.body_open is not None else None
    if body_open_i is None:
        raise Undecided('fn %s has no body' % it.name)
    body_close_i = match_close(st, body_open_i)
    drops = info.drops
    n_edits0 = len(edits)
    # payload lines may be guarded by the shape of the code: `?[text] clause` is kept only if `text` occurs in the
    # body, `?![text] clause` only if it does not (contracts that must read both the repaired and the defective form of
    # a function, so that a returning defect is reported instead of going undecided)
    body_src = src[it.body_open:it.end]
    resolved = []
    for d in dirs:
        if any(re.match(r'\s*\?!?\[', ln) for ln in d.payload):
            pl = []
            for ln in d.payload:
                m = re.match(r'(\s*)\?(!?)\[([^\]]*)\](.*)$', ln)
                if not m:
                    pl.append(ln); continue
                present = m.group(3) in body_src
                if present != bool(m.group(2)):
                    pl.append(m.group(1) + m.group(4))
            d = Directive(d.kind, d.arg, pl, d.line)
        resolved.append(d)
    dirs = resolved
    # `//@ shapes "textA" "textB" ..`: the contracts were written for bodies that contain at least one of these texts
    # (e.g. the variable an invariant has to name).  A body with none of them is a restructuring these contracts
    # cannot read: undecided, never a verdict.
    for d in dirs:
        if d.kind == 'shapes':
            alts = re.findall(r'"([^"]*)"', d.arg)
            if alts and not any(a in body_src for a in alts):
                raise Undecided('unsupported shape: %s contains none of %s (the loop invariants name program variables of the forms they were written for)' % (info.fn, ' / '.join(repr(a) for a in alts)))
    # --- D2: async / .await
    n_await = 0
    await_tok_idx = []
    for i, t in enumerate(st):
        if i < body_open_i and t.kind == 'ident' and t.text == 'async':
            # remove keyword and one following space
            e = t.end + (1 if src[t.end] == ' ' else 0)
            edits.append(Edit(t.start, e, '', 'real', 'D2'))
            drops.append('D2 async')
        if i > body_open_i and t.kind == 'ident' and t.text == 'await' and st[i - 1].text == '.':
            edits.append(Edit(st[i - 1].start, t.end, '', 'real', 'D2'))
            n_await += 1
            await_tok_idx.append(i)
    if n_await:
        drops.append('D2 .await x%d' % n_await)
    # --- D3 (visibility): `pub fn` -> `fn` on request.  Verus does not let the contract of a public function mention
    #     private fields; visibility has no run-time meaning.
    if any(d.kind == 'drop-pub' for d in dirs):
        for i, t in enumerate(st):
            if i >= body_open_i:
                break
            if t.kind == 'ident' and t.text == 'pub':
                e_i = i
                if st[i + 1].text == '(':
                    e_i = match_close(st, i + 1)
                e = st[e_i].end + (1 if src[st[e_i].end] == ' ' else 0)
                edits.append(Edit(t.start, e, '', 'real', 'D3'))
                drops.append('D3 pub')
                break
    # --- D4: log::level!(..); statements
    i = body_open_i + 1
    while i < body_close_i:
        t = st[i]
        if (t.kind == 'ident' and t.text == 'log' and st[i + 1].text == ':' and st[i + 2].text == ':'
                and st[i + 4].text == '!' and st[i + 5].text == '('):
            k = match_close(st, i + 5)
            if st[k + 1].text == ';' and st[i - 1].text in (';', '{', '}'):
                edits.append(Edit(t.start, st[k + 1].end, '', 'real', 'D4'))
                drops.append('D4 log::%s!' % st[i + 3].text)
                i = k + 2; continue
            if st[i - 1].text == '>' and st[i - 2].text == '=' and st[k + 1].text in (',', '}'):
                # a match arm whose whole body is a log call: `pat => log::warn!(..),`  ->  `pat => (),`
                edits.append(Edit(t.start, st[k].end, '()', 'real', 'D4'))
                drops.append('D4 log::%s! (match arm)' % st[i + 3].text)
                i = k + 1; continue
        i += 1
    # --- D1: Self::X -> concrete type from the impl's `type X = T;`
    inherent = any(d.kind == 'inherent' for d in dirs)
    if inherent:
        if parent is None:
            raise Undecided('inherent on a free fn')
        assoc = {}
        for c in parent.children:
            if c.kind == 'type':
                txt = src[c.kw_start:c.end]
                m = re.match(r"type\s+(\w+)\s*(<[^>]*>)?\s*=\s*(.+?);$", txt, re.S)
                if not m:
                    raise Undecided('cannot read associated type %r' % txt)
                assoc[m.group(1)] = (m.group(3).strip(), bool(m.group(2)))
        i = 0
        while i < len(st) - 3:
            if (st[i].kind == 'ident' and st[i].text == 'Self' and st[i + 1].text == ':' and st[i + 2].text == ':'
                    and st[i + 3].kind == 'ident' and st[i + 3].text in assoc):
                ty, generic = assoc[st[i + 3].text]
                end = st[i + 3].end
                if generic and st[i + 4].text == '<':
                    j = i + 4
                    while st[j].text != '>':
                        j += 1
                    end = st[j].end
                edits.append(Edit(st[i].start, end, ty, 'real', 'D1'))
                drops.append('D1 Self::%s -> %s' % (st[i + 3].text, ty))
                i += 4; continue
            i += 1
        drops.append('D1 trait impl `%s` -> inherent' % parent.name)
        st_dir = next((d.arg for d in dirs if d.kind == 'self-type'), None)
        if st_dir:
            for i, t in enumerate(st):
                if t.kind == 'ident' and t.text == 'Self' and not (i + 2 < len(st) and st[i + 1].text == ':' and st[i + 2].text == ':'):
                    edits.append(Edit(t.start, t.end, st_dir, 'real', 'D1'))
            drops.append('D1 Self -> %s' % st_dir)
    # --- D7: receiver `&self` / `self: Arc<Self>` -> `&mut self` (interior mutability modelled as ownership)
    if any(d.kind == 'receiver-mut' for d in dirs):
        fi = next(i for i, t in enumerate(st) if t.kind == 'ident' and t.text == 'fn' and i < body_open_i)
        po = next(i for i in range(fi + 1, body_open_i) if st[i].text == '(')
        pc = match_close(st, po)
        # first parameter
        j = po + 1
        end = j
        depth = 0
        while end < pc:
            if st[end].text in ('(', '[', '<'):
                depth += 1
            elif st[end].text in (')', ']', '>'):
                depth -= 1
            elif st[end].text == ',' and depth == 0:
                break
            end += 1
        first = src[st[j].start:st[end - 1].end]
        if re.sub(r'\s+', '', first) not in ('&self', 'self:Arc<Self>', 'self:Pin<&mutSelf>'):
            raise Undecided('receiver-mut: unexpected receiver %r in %s' % (first, info.fn))
        edits.append(Edit(st[j].start, st[end - 1].end, '&mut self', 'real', 'D7'))
        drops.append('D7 receiver `%s` -> `&mut self`' % re.sub(r'\s+', ' ', first))
    # --- D7 (parameter form): `name: &T` -> `name: &mut T`
    for d in dirs:
        if d.kind == 'param-mut':
            nm = d.arg.strip()
            hit = None
            for i in range(0, body_open_i - 2):
                if st[i].kind == 'ident' and st[i].text == nm and st[i + 1].text == ':' and st[i + 2].text == '&' and st[i + 3].text != 'mut':
                    hit = i + 2
            if hit is None:
                raise Undecided('lost anchor: parameter %s: &.. of %s' % (nm, info.fn))
            edits.append(Edit(st[hit].start, st[hit].end, '&mut ', 'real', 'D7'))
            drops.append('D7 parameter `%s: &..` -> `&mut ..`' % nm)
    # --- return value name
    ret = next((d.arg for d in dirs if d.kind == 'ret'), None)
    if ret:
        # find `->` at depth 0 in the signature
        i = 0
        arrow = None
        while i < body_open_i:
            t = st[i]
            if t.kind == 'punct' and t.text in ('(', '['):
                i = match_close(st, i) + 1; continue
            if t.text == '-' and st[i + 1].text == '>' and st[i + 1].start == t.end:
                arrow = i
            i += 1
        if arrow is None:
            raise Undecided('ret on fn without return type: %s' % it.name)
        ty_start = st[arrow + 2].start
        # type ends before `where` or the body
        ty_end_i = body_open_i
        for k in range(arrow + 2, body_open_i):
            if st[k].kind == 'ident' and st[k].text == 'where':
                ty_end_i = k; break
        ty_end = st[ty_end_i - 1].end
        edits.append(Edit(ty_start, ty_start, '(%s: ' % ret, 'real'))
        edits.append(Edit(ty_end, ty_end, ')', 'real'))
    # --- spec clauses between signature and body
    for d in dirs:
        if d.kind == 'spec':
            text = '\n'.join(d.payload)
            edits.append(Edit(it.body_open, it.body_open, '\n' + text + '\n', 'spec:%s:%d' % (info.fn, d.line)))
            info.n_requires += count_clauses(text, 'requires')
            info.n_ensures += count_clauses(text, 'ensures')
            info.clauses.extend(split_clauses(text))
    # --- loops
    loops = find_loops(st, body_open_i + 1, body_close_i)
    for d in dirs:
        if d.kind in ('loop', 'loop?'):
            la = d.arg.split()
            n = int(la[0])
            if n > len(loops):
                if d.kind == 'loop?':
                    continue
                raise Undecided('lost anchor: loop %d of %s (has %d loops)' % (n, info.fn, len(loops)))
            ki, bi = loops[n - 1]
            if len(la) > 1:
                # ghost name for the for-loop iterator: `for x in NAME: expr` (spec-only binding)
                if st[ki].text != 'for':
                    raise Undecided('iterator name on a non-for loop in %s' % info.fn)
                depth = 0
                ini = None
                for q in range(ki + 1, bi):
                    if st[q].text in ('(', '['):
                        depth += 1
                    elif st[q].text in (')', ']'):
                        depth -= 1
                    elif depth == 0 and st[q].kind == 'ident' and st[q].text == 'in':
                        ini = q; break
                if ini is None:
                    raise Undecided('for without in')
                edits.append(Edit(st[ini].end, st[ini].end, ' %s:' % la[1], 'real'))
                # D8: `for x in &E` is read as `for x in (E).iter()`.  For the std collections `impl IntoIterator for
                # &C` IS `self.iter()`; vstd specifies `iter()` fully and the `&C` form only weakly, and the invariants
                # of a named-iterator loop are written against the iterator `iter()` returns.
                if st[ini + 1].text == '&' and st[ini + 2].text != 'mut':
                    edits.append(Edit(st[ini + 1].start, st[ini + 1].end, '(', 'real', 'D8'))
                    edits.append(Edit(st[bi - 1].end, st[bi - 1].end, ').iter()', 'real', 'D8'))
                    drops.append('D8 `for .. in &E` read as `(E).iter()`')
            text = '\n'.join(d.payload)
            edits.append(Edit(st[bi].start, st[bi].start, '\n' + text + '\n', 'loop%d:%s:%d' % (n, info.fn, d.line)))
            info.n_invariants += count_clauses(text, 'invariant')
            info.clauses.extend(('loop-' + k, c) for k, c in split_clauses(text))
    for d in dirs:
        if d.kind in ('loopbody', 'loopbody?'):
            n = int(d.arg.split()[0])
            if n > len(loops):
                if d.kind == 'loopbody?':
                    continue
                raise Undecided('lost anchor: loop %d of %s (has %d loops)' % (n, info.fn, len(loops)))
            _, bi = loops[n - 1]
            text = '\n'.join(d.payload)
            edits.append(Edit(st[bi].end, st[bi].end, '\n' + text + '\n', 'loopbody%d:%s:%d' % (n, info.fn, d.line)))
            info.n_asserts += len(re.findall(r'\bassert\s*\(', text))
    for d in dirs:
        if d.kind in ('loopend', 'loopend?'):
            n = int(d.arg.split()[0])
            if n > len(loops):
                if d.kind == 'loopend?':
                    continue
                raise Undecided('lost anchor: loop %d of %s (has %d loops)' % (n, info.fn, len(loops)))
            _, bi = loops[n - 1]
            ce = match_close(st, bi)
            text = '\n'.join(d.payload)
            edits.append(Edit(st[ce].start, st[ce].start, '\n' + text + '\n', 'loopend%d:%s:%d' % (n, info.fn, d.line)))
            info.n_asserts += len(re.findall(r'\bassert\s*\(', text))
    for d in dirs:
        if d.kind in ('afterloop', 'afterloop?'):
            n = int(d.arg.split()[0])
            if n > len(loops):
                if d.kind == 'afterloop?':
                    continue
                raise Undecided('lost anchor: loop %d of %s (has %d loops)' % (n, info.fn, len(loops)))
            _, bi = loops[n - 1]
            ce = match_close(st, bi)
            text = '\n'.join(d.payload)
            edits.append(Edit(st[ce].end, st[ce].end, '\n' + text + '\n', 'afterloop%d:%s:%d' % (n, info.fn, d.line)))
            info.n_asserts += len(re.findall(r'\bassert\s*\(', text))
    # --- await invariants
    for d in dirs:
        if d.kind == 'await':
            which = range(len(await_tok_idx)) if d.arg == '*' else [int(d.arg) - 1]
            expr = ' '.join(x.strip() for x in d.payload)
            for w in which:
                if w >= len(await_tok_idx):
                    raise Undecided('lost anchor: await %d of %s' % (w + 1, info.fn))
                ai = await_tok_idx[w]
                si = stmt_start(st, ai, body_open_i + 1)
                # walk out of brace-less match arms: `pat => expr.await,`
                guard = 0
                while si > body_open_i + 1 and st[si - 1].text == '>' and st[si - 2].text == '=':
                    si = stmt_start(st, si - 2, body_open_i + 1); guard += 1
                    if guard > 8:
                        raise Undecided('await placement')
                between = src[st[si].start:st[ai].start]
                for f in state_fields:
                    if re.search(r'\b%s\b' % re.escape(f), between):
                        raise Undecided('unsupported shape: state field %s used in the statement that awaits (%s)' % (f, info.fn))
                pos = st[si].start
                edits.append(Edit(pos, pos, 'proof { assert(%s); } // await-point %d\n' % (expr, w + 1),
                                  'await%d:%s:%d' % (w + 1, info.fn, d.line)))
                info.n_asserts += 1
                info.clauses.append(('await-invariant', 'await-point %d: %s' % (w + 1, expr)))
    for d in dirs:
        if d.kind == 'await-try' and not getattr(_tls, 'no_await_try', False):
            w = int(d.arg) - 1
            expr = ' '.join(x.strip() for x in d.payload)
            if w >= len(await_tok_idx):
                raise Undecided('lost anchor: await %d of %s' % (w + 1, info.fn))
            ai = await_tok_idx[w]
            si = stmt_start(st, ai, body_open_i + 1)
            guard = 0
            while si > body_open_i + 1 and st[si - 1].text == '>' and st[si - 2].text == '=':
                si = stmt_start(st, si - 2, body_open_i + 1); guard += 1
                if guard > 8:
                    raise Undecided('await placement')
            pos = st[si].start
            edits.append(Edit(pos, pos, 'proof { assert(%s); } // await-point %d (if the place is not borrowed here)\n' % (expr, w + 1),
                              'awaittry%d:%s:%d' % (w + 1, info.fn, d.line)))
            info.n_asserts += 1
            info.clauses.append(('await-invariant', 'await-point %d (when accessible): %s' % (w + 1, expr)))
    # --- hints
    for d in dirs:
        if d.kind in ('hint', 'hint?'):
            text = '\n'.join(d.payload)
            m = re.match(r'(start|end|tail|before|after)\s*(?:"(.*)")?$', d.arg)
            if not m:
                raise Undecided('bad hint directive %r' % d.arg)
            where, pat = m.group(1), m.group(2)
            if where == 'start':
                pos = st[body_open_i].end
            elif where == 'end':
                pos = st[body_close_i].start
            elif where == 'tail':
                # before the tail expression of the body (after the last top-level `;` or `}`)
                depth = 0
                q = body_close_i - 1
                pos = st[body_open_i].end
                while q > body_open_i:
                    t = st[q]
                    if t.text in (')', ']', '}'):
                        if depth == 0 and t.text == '}' and q != body_close_i - 1:
                            pos = t.end; break
                        depth += 1
                    elif t.text in ('(', '[', '{'):
                        depth -= 1
                    elif t.text == ';' and depth == 0:
                        pos = t.end; break
                    q -= 1
            else:
                body_txt = src[st[body_open_i].end:st[body_close_i].start]
                k = body_txt.find(pat)
                if k < 0 or body_txt.find(pat, k + 1) >= 0:
                    if d.kind == 'hint?':
                        continue
                    raise Undecided('lost anchor: hint pattern %r in %s (%s)' % (pat, info.fn, 'absent' if k < 0 else 'ambiguous'))
                pos = st[body_open_i].end + (k if where == 'before' else k + len(pat))
            edits.append(Edit(pos, pos, '\n' + text + '\n', 'hint:%s:%d' % (info.fn, d.line)))
            info.n_asserts += len(re.findall(r'\bassert\s*\(', text))
    # --- D5 region replacement
    for d in dirs:
        if d.kind == 'region':
            pat = d.arg.strip('"')
            body_txt = src[st[body_open_i].end:st[body_close_i].start]
            k = body_txt.find(pat)
            if k < 0 or body_txt.find(pat, k + 1) >= 0:
                raise Undecided('lost anchor: region %r in %s' % (pat, info.fn))
            a = st[body_open_i].end + k
            # region = from pattern start through the brace block that follows
            ti = next(i for i, t in enumerate(st) if t.start >= a)
            j = ti
            while st[j].text != '{':
                if st[j].text in ('(', '['):
                    j = match_close(st, j)
                j += 1
            c = match_close(st, j)
            # the assumption attached to the region describes ONE particular text: if the region has changed the
            # assumed contract is no longer justified -> undecided (never verified under a stale assumption)
            exp = next((x for x in dirs if x.kind == 'region-text' and x.line > d.line), None)
            if exp is not None:
                def canon(t):
                    return ''.join(tok.text for tok in sig(lex(t)))
                if canon(src[a:st[c].end]) != canon('\n'.join(exp.payload)):
                    raise Undecided('assumed region `%s` of %s no longer has the text its assumed contract was written for' % (pat, info.fn))
            edits.append(Edit(a, st[c].end, '\n'.join(d.payload), 'region:%s:%d' % (info.fn, d.line), 'D5'))
            drops.append('D5 assumed region `%s`' % pat)
    # --- D5 (expression form): an expression Verus cannot read is replaced by a call of an assumed-contract stub
    for d in dirs:
        if d.kind == 'subst':
            pat = d.arg.strip('"')
            body_txt = src[st[body_open_i].end:st[body_close_i].start]
            k = body_txt.find(pat)
            if k < 0 or body_txt.find(pat, k + 1) >= 0:
                raise Undecided('lost anchor: expression %r in %s (%s)' % (pat, info.fn, 'absent' if k < 0 else 'ambiguous'))
            a = st[body_open_i].end + k
            edits.append(Edit(a, a + len(pat), ' '.join(x.strip() for x in d.payload), 'subst:%s:%d' % (info.fn, d.line), 'D5'))
            drops.append('D5 assumed expression `%s`' % pat)
    for d in dirs:
        if d.kind == 'subst-re':
            rx = re.compile(d.arg.strip('"'))
            body_txt = src[st[body_open_i].end:st[body_close_i].start]
            ms = list(rx.finditer(body_txt))
            if len(ms) != 1:
                raise Undecided('lost anchor: expression /%s/ in %s (%d matches)' % (rx.pattern, info.fn, len(ms)))
            m0 = ms[0]
            a = st[body_open_i].end + m0.start()
            edits.append(Edit(a, a + len(m0.group(0)), m0.expand(' '.join(x.strip() for x in d.payload)), 'subst:%s:%d' % (info.fn, d.line), 'D5'))
            drops.append('D5 assumed expression `%s`' % m0.group(0))
    # --- D7 (expression form): `&place` -> `&mut place` where the code reaches interior-mutable data through a shared
    #     borrow (same sequential-scope assumption as the receiver rewrite; nothing is assumed about the expression)
    for d in dirs:
        if d.kind in ('mutref', 'mutref?'):
            pat = d.arg.strip('"')
            if not pat.startswith('&') or pat.startswith('&mut'):
                raise Undecided('mutref: pattern must start with `&`')
            body_txt = src[st[body_open_i].end:st[body_close_i].start]
            k = body_txt.find(pat)
            if k < 0 and d.kind == 'mutref?':
                continue
            if k < 0 or body_txt.find(pat, k + 1) >= 0:
                raise Undecided('lost anchor: expression %r in %s (%s)' % (pat, info.fn, 'absent' if k < 0 else 'ambiguous'))
            a = st[body_open_i].end + k
            edits.append(Edit(a, a + 1, '&mut ', 'real', 'D7'))
            drops.append('D7 `%s` -> `&mut %s`' % (pat, pat[1:]))
    # --- D6 closure header annotation: `|x| body` -> `<header from the contract> { body }`
    #     (parameter types, named return value, ensures clause and braces; the body tokens are unchanged)
    for d in dirs:
        if d.kind == 'closure':
            pat = d.arg.strip('"')
            body_txt = src[st[body_open_i].end:st[body_close_i].start]
            k = body_txt.find(pat)
            if k < 0 or body_txt.find(pat, k + 1) >= 0:
                raise Undecided('lost anchor: closure %r in %s' % (pat, info.fn))
            a = st[body_open_i].end + k
            # pat must end with the closure's parameter list `|..|`; the closure is the last argument of the
            # enclosing call, so its body runs to the `)` that closes the innermost open `(` of pat
            ti = next(i for i, t in enumerate(st) if t.start >= a)
            te = next(i for i, t in enumerate(st) if t.end >= a + len(pat))
            open_i = None
            for q in range(ti, te + 1):
                if st[q].text == '(':
                    open_i = q
            bars = [q for q in range(ti, te + 1) if st[q].text == '|']
            if open_i is None or len(bars) < 2 or bars[-1] != te:
                raise Undecided('closure directive: pattern must look like `.f(|args|` in %s' % info.fn)
            close_i = match_close(st, open_i)
            hdr = ' '.join(x.strip() for x in d.payload)
            edits.append(Edit(st[bars[0]].start, st[bars[-1]].end, hdr + ' {', 'closure:%s:%d' % (info.fn, d.line), 'D6'))
            edits.append(Edit(st[close_i].start, st[close_i].start, ' }', 'real'))
            drops.append('D6 closure header annotated `%s`' % pat)
            info.n_ensures += 1
            info.clauses.append(('closure-ensures', hdr))
    for d in dirs:
        if d.kind == 'attr':
            edits.append(Edit(it.start, it.start, '\n'.join(d.payload) + '\n', 'attr'))
            if 'external_body' in ' '.join(d.payload):
                info.trusted = True
    # --- shape guard.  The contracts of a template are written for a body with a particular number of loops (each
    #     with its invariant) and of closures (each annotated by D6 or replaced by D5).  A loop without an invariant or
    #     a closure without an exported `ensures` makes Verus forget facts the code does establish, so a failed
    #     obligation in such a body says nothing about the code: the driver reports it as undecided, never as a
    #     violation.  Obligations that are discharged stay discharged (forgetting facts is sound).
    mine = edits[n_edits0:]

    def handled(pos):
        for e in mine:
            if e.end > e.pos and e.pos <= pos < e.end:
                return True
        return False
    ncl = 0
    for i in range(body_open_i + 1, body_close_i):
        t = st[i]
        if t.kind != 'punct' or t.text != '|':
            continue
        pv = st[i - 1]
        starts = pv.text in ('(', ',', '=', '{', ';', 'move', 'return') or (pv.text == '>' and st[i - 2].text == '=' and st[i - 2].end == pv.start)
        if pv.text == '=' and st[i - 2].text in ('=', '!', '<', '>', '|', '&', '^', '+', '-', '*', '/', '%') and st[i - 2].end == pv.start:
            starts = False      # `==`, `<=`, `|=` ...: an operator, not the start of an expression after `=`
        if starts and not handled(t.start):
            ncl += 1
    info.n_loops = len(loops)
    info.n_closures = ncl
    # vocabulary: what the real body calls.  `name(`, `.name(`, `path::name(`, `name::<..>(` and `name!`; capitalised
    # names (types, enum variants, tuple structs) and keywords are left out
    KW = {'if', 'while', 'match', 'return', 'for', 'loop', 'in', 'as', 'let', 'else', 'move', 'fn', 'mut', 'ref', 'break', 'continue', 'await', 'async', 'unsafe', 'where', 'impl', 'dyn', 'self', 'Self', 'super', 'crate'}
    cal = set()
    for i in range(body_open_i + 1, body_close_i):
        t = st[i]
        if t.kind != 'ident' or t.text in KW or handled(t.start):
            continue
        nx = st[i + 1]
        is_call = nx.text == '(' or (nx.text == ':' and st[i + 2].text == ':' and st[i + 3].text == '<')
        is_macro = nx.text == '!' and st[i + 2].text in ('(', '[', '{')
        if is_macro:
            if t.text != 'log' and not (i >= 3 and st[i - 3].text == 'log'):
                cal.add(t.text + '!')
        elif is_call and not t.text[0].isupper():
            pv, pv2 = st[i - 1], st[i - 2]
            if pv.text == '.':
                cal.add('.' + t.text)                       # method call
            elif pv.text == ':' and pv2.text == ':' and st[i - 3].kind == 'ident':
                cal.add(st[i - 3].text + '::' + t.text)     # path call: the last two segments (`u8::from`, `Bytes::from`)
            elif pv.text == ':' and pv2.text == ':' and st[i - 3].text == '>':
                cal.add('<..>::' + t.text)
            else:
                cal.add(t.text)
    info.callees = sorted(cal)
    addressed = set()
    for d in dirs:
        if d.kind in ('loop', 'loop?'):
            addressed.add(int(d.arg.split()[0]))
    notes = []
    bare = [i for i in range(1, len(loops) + 1) if i not in addressed]
    if bare:
        notes.append('has %d loop(s), the contracts carry invariants for %d' % (len(loops), len(addressed)))
    if ncl:
        notes.append('has %d closure(s) whose result Verus leaves unconstrained (no annotation in the contracts)' % ncl)
    info.shape_changed = '; '.join(notes)


def split_clauses(text: str):
    """[(keyword, clause text)] for the top-level comma separated clauses of a spec block"""
    toks = [t for t in lex(text) if t.kind != 'comment']
    kws = {'requires', 'ensures', 'invariant', 'decreases', 'invariant_except_break', 'recommends', 'no_unwind'}
    res = []
    cur = None
    depth = 0
    buf = []

    def flush():
        s = ''.join(buf).strip()
        if cur and s:
            res.append((cur, re.sub(r'\s+', ' ', s)))
        buf.clear()
    for t in toks:
        if t.kind == 'ident' and t.text in kws and depth == 0:
            flush(); cur = t.text; continue
        if t.kind == 'punct' and t.text in ('(', '[', '{'):
            depth += 1
        elif t.kind == 'punct' and t.text in (')', ']', '}'):
            depth -= 1
        if t.kind == 'punct' and t.text == ',' and depth == 0:
            flush(); continue
        buf.append(t.text)
    flush()
    return res


def count_clauses(text: str, kw: str) -> int:
    return sum(1 for k, _ in split_clauses(text) if k == kw)


def _old_count_clauses(text: str, kw: str) -> int:
    """number of comma separated clauses after keyword kw (top-level commas)"""
    toks = sig(lex(text))
    n = 0
    i = 0
    kws = {'requires', 'ensures', 'invariant', 'decreases', 'invariant_except_break', 'recommends', 'no_unwind'}
    cur = None
    depth = 0
    nonempty = False
    for t in toks:
        if t.kind == 'ident' and t.text in kws and depth == 0:
            if cur == kw and nonempty:
                n += 1
            cur = t.text; nonempty = False; continue
        if t.kind == 'punct' and t.text in ('(', '[', '{'):
            depth += 1
        elif t.kind == 'punct' and t.text in (')', ']', '}'):
            depth -= 1
        if t.kind == 'punct' and t.text == ',' and depth == 0:
            if cur == kw and nonempty:
                n += 1
            nonempty = False
            continue
        nonempty = True
    if cur == kw and nonempty:
        n += 1
    return n


def apply_edits(src: str, lo: int, hi: int, edits: List[Edit], src_file: str):
    """materialise src[lo:hi] with edits; returns list of (text, origin)"""
    edits = sorted([e for e in edits if lo <= e.pos <= hi], key=lambda e: (e.pos, e.end))
    out = []
    cur = lo
    for e in edits:
        if e.pos < cur:
            if e.end <= cur:
                continue
            raise Undecided('overlapping edits at %s:%d' % (src_file, line_of(src, e.pos)))
        if e.pos > cur:
            out.append((src[cur:e.pos], ('real', src_file, line_of(src, cur))))
        if e.text:
            if e.origin == 'real':
                out.append((e.text, ('real', src_file, line_of(src, e.pos))))
            else:
                out.append((e.text, ('ins', e.origin, 0)))
        cur = max(cur, e.end)
    if cur < hi:
        out.append((src[cur:hi], ('real', src_file, line_of(src, cur))))
    return out


class Unit:
    def __init__(self, name, repo, template_path):
        self.name = name
        self.repo = repo
        self.template_path = template_path
        self.segments = []     # (text, origin)
        self.fns: List[FnInfo] = []
        self.state_fields: List[str] = []
        self.meta = {}

    def build(self):
        text = open(self.template_path).read()
        base = os.path.dirname(os.path.dirname(os.path.abspath(self.template_path)))
        def inc(mm):
            return open(os.path.join(base, mm.group(1))).read()
        text = re.sub(r'^//@@ include (\S+)[ \t]*$', inc, text, flags=re.M)
        # `//@@ consts <file>`: every top-level `const` of that file (so that a constant a change introduces resolves)
        def consts(mm):
            path = os.path.join(self.repo, mm.group(1))
            if not os.path.exists(path):
                raise Undecided('lost anchor: file %s' % mm.group(1))
            src = open(path).read()
            out = []
            for it in rustscan.scan_items(src):
                if it.kind == 'const' and (':: const %s\n' % it.name) not in text and (':: const %s ' % it.name) not in text:
                    out.append('//@ item %s :: const %s\n//@ end' % (mm.group(1), it.name))
            return '\n'.join(out)
        text = re.sub(r'^//@@ consts (\S+)[ \t]*$', consts, text, flags=re.M)
        # `//@@ closed-impl <file> :: <impl selector> :: fn1 fn2`: the trait impl defines exactly these fns.  The contracts
        # ASSUME the trait's default for every other method (e.g. asynchronous-codec's `decode_eof`, which reports leftover
        # octets at end of input as an error); an override would be code the property depends on that no contract reads,
        # so the check is undecided - never "verified", never a violation
        for mm in re.finditer(r'^//@@ closed-impl (\S+) :: (.+?) :: ([\w ]+?)[ \t]*$', text, re.M):
            path = os.path.join(self.repo, mm.group(1))
            if not os.path.exists(path):
                raise Undecided('lost anchor: file %s' % mm.group(1))
            try:
                imp = rustscan.find_item(rustscan.scan_items(open(path).read()), mm.group(2))
            except KeyError as e:
                raise Undecided('lost anchor: %s' % e)
            have = sorted(c.name for c in imp.children if c.kind == 'fn')
            want = sorted(mm.group(3).split())
            if have != want:
                raise Undecided('unsupported shape: `%s` in %s defines fn %s, the contracts were written for %s (the trait default of every other method is an assumption)'
                                % (mm.group(2), mm.group(1), ', '.join(have), ', '.join(want)))
        self.template_text = text
        self.defines = set(re.findall(r'^//@@ define (\w+)[ \t]*$', text, re.M))
        m = re.search(r'^//@@ state-fields:(.*)$', text, re.M)
        if m:
            self.state_fields = m.group(1).split()
        cache = {}
        for part in parse_template(text):
            if part[0] == 'text':
                self.segments.append((part[1], ('tmpl', self.template_path, part[2])))
                continue
            _, file, selector, dirs, tline = part
            skip = False
            for d in dirs:
                if d.kind == 'only-if' and d.arg not in self.defines:
                    skip = True
                if d.kind == 'only-if-not' and d.arg in self.defines:
                    skip = True
            if skip:
                continue
            path = os.path.join(self.repo, file)
            if path not in cache:
                if not os.path.exists(path):
                    raise Undecided('lost anchor: file %s' % file)
                s = open(path).read()
                cache[path] = (s, rustscan.scan_items(s))
            src, items = cache[path]
            try:
                it, parent = rustscan.find_item(items, selector, with_parent=True)
            except KeyError as e:
                raise Undecided('lost anchor: %s' % e)
            self.emit_item(src, file, selector, it, parent, dirs)
        return self

    def emit_item(self, src, file, selector, it, parent, dirs):
        edits: List[Edit] = []
        drops: List[str] = []
        extra_drop = set()
        for d in dirs:
            if d.kind == 'drop-derive':
                extra_drop |= set(x.strip() for x in d.arg.split(','))
        filter_attrs(src, it, edits, drops, extra_drop)
        infos = []
        if it.kind == 'fn':
            owner = ''
            if parent is not None:
                m = re.search(r'(?:for\s+)?([A-Za-z_][A-Za-z0-9_]*)\s*(?:<[^>]*>)?\s*$', parent.name)
                owner = (m.group(1) if m else parent.name) + '::'
            disp = next((d.arg for d in dirs if d.kind == 'name'), owner + it.name)
            info = FnInfo(self.name, selector, disp, file, line_of(src, it.kw_start), '', drops)
            stub = any(d.kind == 'stub-if' and d.arg in self.defines for d in dirs)
            if stub:
                # the callee's contract is ASSUMED in this unit (it is verified, with the same contract text, in
                # the unit that extracts the body): keep signature + contract, drop the body
                dirs = [d for d in dirs if d.kind in ('ret', 'spec', 'inherent', 'receiver-mut', 'self-type', 'name', 'drop-derive')]
                dirs.append(Directive('attr', '', ['    #[verifier::external_body]'], 0))
                process_fn(src, file, it, dirs, parent, edits, info, self.state_fields)
                edits.append(Edit(it.body_open, it.end, '{ unimplemented!() }', 'real', 'STUB'))
                drops.append('STUB body dropped: contract assumed here, verified in another unit')
                info.trusted = True
                info.shape_changed = ''
            else:
                process_fn(src, file, it, dirs, parent, edits, info, self.state_fields)
            infos.append(info)
        elif it.kind == 'impl':
            # whole impl kept as is (trait impls Verus understands: TryFrom / From / Default / Clone)
            cur_dirs = {}
            cur = None
            for d in dirs:
                if d.kind == 'fn':
                    cur = d.arg; cur_dirs[cur] = []
                elif d.kind == 'attr' and cur is None:
                    edits.append(Edit(it.start, it.start, '\n'.join(d.payload) + '\n', 'attr'))
                elif cur is not None:
                    cur_dirs[cur].append(d)
            m = re.search(r'for\s+([A-Za-z_][A-Za-z0-9_]*)', it.name)
            owner = m.group(1) if m else re.sub(r'<.*', '', it.name)
            trait = it.name.split('for')[0].strip() if ' for ' in (' ' + it.name + ' ') or 'for ' in it.name else ''
            for c in it.children:
                filter_attrs(src, c, edits, drops)
                if c.kind == 'fn':
                    nm = '<%s as %s>::%s' % (owner, trait, c.name) if trait else '%s::%s' % (owner, c.name)
                    info = FnInfo(self.name, selector + ' / fn ' + c.name, nm, file, line_of(src, c.kw_start), '', list(drops))
                    process_fn(src, file, c, cur_dirs.get(c.name, []), it, edits, info, self.state_fields)
                    infos.append(info)
            for k in cur_dirs:
                if not any(c.kind == 'fn' and c.name == k for c in it.children):
                    raise Undecided('lost anchor: fn %s in %s' % (k, selector))
        else:
            # struct / enum / const / type
            if it.body_open is not None:
                strip_inner_attrs(src, it.body_open, it.end, edits, drops)
            for d in dirs:
                if d.kind == 'attr':
                    edits.append(Edit(it.start, it.start, '\n'.join(d.payload) + '\n', 'attr'))
        segs = apply_edits(src, it.start, it.end, edits, file)
        sha = hashlib.sha256(src[it.start:it.end].encode()).hexdigest()
        for info in infos:
            info.sha256 = sha
        self.segments.append(('// ---- extracted: %s :: %s (sha256 %s)\n' % (file, selector, sha[:16]), ('tmpl', '', 0)))
        first_seg = len(self.segments)
        self.segments.extend(segs)
        self.segments.append(('\n', ('tmpl', '', 0)))
        for info in infos:
            info._item_span = (first_seg, len(self.segments))
            info._src_span = None
        # fn ranges resolved in render() using source line ranges
        for info, c in zip(infos, ([it] if it.kind == 'fn' else [c for c in it.children if c.kind == 'fn'])):
            info._src_lines = (line_of(src, c.start), line_of(src, c.end))
            self.fns.append(info)
        self.meta.setdefault('items', []).append({'file': file, 'selector': selector, 'sha256': sha, 'drops': drops})

    def render(self):
        """returns (text, linemap) where linemap[i] is the origin tuple of line i+1"""
        out = []
        linemap = []
        cur = None
        for text, origin in self.segments:
            kind, lab, base = origin
            parts = text.split('\n')
            for k, p in enumerate(parts):
                if k > 0:
                    linemap.append(cur); cur = None
                    out.append('\n')
                o = (kind, lab, base + k if kind in ('real', 'tmpl') and base else 0)
                # spliced clauses win over real text when they share a line
                if p.strip() and (cur is None or (kind == 'ins' and cur[0] != 'ins')):
                    cur = o
                out.append(p)
        linemap.append(cur)
        text = ''.join(out)
        # resolve fn output ranges
        for info in self.fns:
            lo, hi = info._src_lines
            lines = [i + 1 for i, o in enumerate(linemap)
                     if o and o[0] == 'real' and o[1] == info.src_file and lo <= o[2] <= hi]
            if lines:
                info.out_first, info.out_last = min(lines), max(lines)
        return text, linemap


def build_unit(name, repo, verif):
    u = Unit(name, repo, os.path.join(verif, 'units', name + '.rs'))
    u.build()
    return u


if __name__ == '__main__':
    import argparse
    ap = argparse.ArgumentParser()
    ap.add_argument('unit')
    ap.add_argument('--repo', default='/repo')
    ap.add_argument('--verif', default=os.path.dirname(os.path.dirname(os.path.abspath(__file__))))
    ap.add_argument('-o', default=None)
    a = ap.parse_args()
    try:
        u = build_unit(a.unit, a.repo, a.verif)
        text, lm = u.render()
    except Undecided as e:
        print('UNDECIDED:', e); sys.exit(2)
    out = a.o or os.path.join(a.verif, '.work', a.unit + '.rs')
    os.makedirs(os.path.dirname(out), exist_ok=True)
    open(out, 'w').write(text)
    print('wrote', out, len(lm), 'lines;', len(u.fns), 'fns')
    for f in u.fns:
        print('  ', f.fn, f.src_file, f.src_line, 'out', f.out_first, f.out_last, f.drops)
