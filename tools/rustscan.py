"""Small Rust lexer + item scanner used by the extractor.

It understands comments (nested block comments), string / raw-string / byte-string
literals, char literals vs lifetimes, and brace nesting.  It does NOT parse
expressions; everything the extractor does is a token-level operation.
"""
import re
from dataclasses import dataclass, field
from typing import List, Optional

IDENT_START = re.compile(r'[A-Za-z_]')
IDENT = re.compile(r'[A-Za-z_][A-Za-z0-9_]*')
NUM = re.compile(r'[0-9][A-Za-z0-9_]*(\.[0-9][A-Za-z0-9_]*)?')


@dataclass
class Tok:
    kind: str      # ws comment str char lifetime ident num punct
    text: str
    start: int
    end: int


class LexError(Exception):
    pass


def lex(src: str) -> List[Tok]:
    toks = []
    i, n = 0, len(src)
    while i < n:
        c = src[i]
        if c.isspace():
            j = i
            while j < n and src[j].isspace():
                j += 1
            toks.append(Tok('ws', src[i:j], i, j)); i = j; continue
        if src.startswith('//', i):
            j = src.find('\n', i)
            if j < 0:
                j = n
            toks.append(Tok('comment', src[i:j], i, j)); i = j; continue
        if src.startswith('/*', i):
            depth, j = 1, i + 2
            while j < n and depth:
                if src.startswith('/*', j):
                    depth += 1; j += 2
                elif src.startswith('*/', j):
                    depth -= 1; j += 2
                else:
                    j += 1
            if depth:
                raise LexError('unterminated block comment')
            toks.append(Tok('comment', src[i:j], i, j)); i = j; continue
        # raw strings r"", r#""#, br"", br#""#
        m = re.match(r'(b?r)(#*)"', src[i:i + 40])
        if m:
            hashes = m.group(2)
            close = '"' + hashes
            j = src.find(close, i + len(m.group(0)))
            if j < 0:
                raise LexError('unterminated raw string')
            j += len(close)
            toks.append(Tok('str', src[i:j], i, j)); i = j; continue
        if c == '"' or (c == 'b' and i + 1 < n and src[i + 1] == '"'):
            j = i + (2 if c == 'b' else 1)
            while j < n and src[j] != '"':
                j += 2 if src[j] == '\\' else 1
            if j >= n:
                raise LexError('unterminated string')
            j += 1
            toks.append(Tok('str', src[i:j], i, j)); i = j; continue
        if c == "'" or (c == 'b' and i + 1 < n and src[i + 1] == "'"):
            k = i + (1 if c == 'b' else 0)
            # char literal: '\x', 'x' ; lifetime: 'ident (no closing quote right after one char)
            if k + 1 < n and src[k + 1] == '\\':
                j = k + 2
                while j < n and src[j] != "'":
                    j += 1
                j += 1
                toks.append(Tok('char', src[i:j], i, j)); i = j; continue
            if k + 2 < n and src[k + 2] == "'":
                j = k + 3
                toks.append(Tok('char', src[i:j], i, j)); i = j; continue
            m = IDENT.match(src, k + 1)
            if m and c == "'":
                toks.append(Tok('lifetime', src[i:m.end()], i, m.end())); i = m.end(); continue
            raise LexError('bad quote at %d' % i)
        m = IDENT.match(src, i)
        if m:
            toks.append(Tok('ident', m.group(0), i, m.end())); i = m.end(); continue
        m = NUM.match(src, i)
        if m:
            # avoid swallowing a range `0..n` : NUM only takes .digit
            toks.append(Tok('num', m.group(0), i, m.end())); i = m.end(); continue
        toks.append(Tok('punct', c, i, i + 1)); i += 1
    return toks


def sig(toks: List[Tok]) -> List[Tok]:
    """significant tokens (no whitespace / comments)"""
    return [t for t in toks if t.kind not in ('ws', 'comment')]


OPEN = {'(': ')', '[': ']', '{': '}'}
CLOSE = {')', ']', '}'}


def match_close(st: List[Tok], i: int) -> int:
    """st: significant tokens, st[i] is an opening bracket; returns index of its closer"""
    depth = 0
    for j in range(i, len(st)):
        t = st[j]
        if t.kind == 'punct':
            if t.text in OPEN:
                depth += 1
            elif t.text in CLOSE:
                depth -= 1
                if depth == 0:
                    return j
    raise LexError('unbalanced bracket at %d' % st[i].start)


ITEM_KW = {'fn', 'struct', 'enum', 'impl', 'const', 'static', 'type', 'mod', 'use', 'trait', 'union',
           'extern', 'macro_rules'}
PREFIX_KW = {'pub', 'async', 'unsafe', 'default', 'crate', 'in', 'super', 'self'}


@dataclass
class Item:
    kind: str               # fn struct enum impl const type mod use trait ...
    name: str               # for impl: normalised header text after `impl`
    start: int              # byte offset of first attribute / doc comment / keyword
    kw_start: int           # byte offset of the first non-attribute token (pub / async / fn ...)
    body_open: Optional[int]   # byte offset of `{` (None for `;` items)
    end: int                # byte offset one past `}` or `;`
    attrs: List[tuple] = field(default_factory=list)   # (start,end) of attributes and doc comments
    children: List['Item'] = field(default_factory=list)


def norm(s: str) -> str:
    s = re.sub(r'\s+', ' ', s.strip())
    s = re.sub(r'\s*([<>,:&()\[\]])\s*', r'\1', s)
    return s


def scan_items(src: str, lo: int = 0, hi: Optional[int] = None) -> List[Item]:
    """Scan the items that live directly in src[lo:hi] (a file, or the inside of an impl/mod)."""
    if hi is None:
        hi = len(src)
    toks = [t for t in lex(src[lo:hi])]
    for t in toks:
        t.start += lo; t.end += lo
    # doc comments are attributes; other comments are skipped
    st = [t for t in toks if t.kind != 'ws' and not (t.kind == 'comment' and not (
        t.text.startswith('///') or t.text.startswith('//!') or t.text.startswith('/**')))]
    items = []
    i = 0
    while i < len(st):
        t = st[i]
        start = t.start
        attrs = []
        # attributes + doc comments
        while i < len(st):
            t = st[i]
            if t.kind == 'comment':
                attrs.append((t.start, t.end)); i += 1; continue
            if t.kind == 'punct' and t.text == '#':
                j = i + 1
                if st[j].kind == 'punct' and st[j].text == '!':
                    j += 1
                if st[j].text != '[':
                    raise LexError('bad attribute at %d' % t.start)
                k = match_close(st, j)
                attrs.append((t.start, st[k].end)); i = k + 1; continue
            break
        if i >= len(st):
            break
        kw_start = st[i].start
        # prefix keywords / visibility
        while i < len(st) and st[i].kind == 'ident' and st[i].text in PREFIX_KW and st[i].text not in ITEM_KW:
            i += 1
            if i < len(st) and st[i].text == '(' and st[i - 1].text == 'pub':
                i = match_close(st, i) + 1
        if i >= len(st):
            break
        if st[i].kind == 'str' and st[i - 1].text == 'extern':
            i += 1
        kw = st[i]
        if kw.kind != 'ident' or kw.text not in ITEM_KW:
            # macro invocation item (e.g. `lazy_static! { .. }`) or stray token: skip to ; or matching }
            j = i
            while j < len(st) and not (st[j].kind == 'punct' and st[j].text in (';', '{')):
                j += 1
            if j < len(st) and st[j].text == '{':
                j = match_close(st, j)
            end = st[j].end if j < len(st) else hi
            items.append(Item('other', st[i].text, start, kw_start, None, end, attrs))
            i = j + 1
            continue
        kind = kw.text
        if kind in ('const', 'extern') and i + 1 < len(st) and st[i + 1].kind == 'ident' and st[i + 1].text in ('fn', 'async', 'unsafe'):
            while st[i].text != 'fn':
                i += 1
            kw = st[i]
            kind = 'fn'
        # find `{` or `;` at bracket depth 0 (angle brackets never contain braces in this code base,
        # but parentheses/brackets may contain `;` in array types)
        j = i + 1
        body_open = None
        while j < len(st):
            tj = st[j]
            if tj.kind == 'punct' and tj.text in ('(', '['):
                j = match_close(st, j) + 1; continue
            if tj.kind == 'punct' and tj.text == '{' and kind == 'use':
                j = match_close(st, j) + 1; continue
            if tj.kind == 'punct' and tj.text == '{':
                body_open = j; break
            if tj.kind == 'punct' and tj.text == ';':
                break
            if tj.kind == 'punct' and tj.text == '=' and kind in ('const', 'static', 'type'):
                # initializer expression may contain braces; run to the terminating ;
                k = j + 1
                while k < len(st) and not (st[k].kind == 'punct' and st[k].text == ';'):
                    if st[k].kind == 'punct' and st[k].text in OPEN:
                        k = match_close(st, k)
                    k += 1
                j = k
                break
            j += 1
        if j >= len(st):
            raise LexError('unterminated item at %d' % kw.start)
        if body_open is not None:
            close = match_close(st, body_open)
            end = st[close].end
            # struct/enum tuple forms end with ; after ) — handled by the ';' branch
            header = src[kw.end:st[body_open].start]
            bo = st[body_open].start
            nxt = close + 1
        else:
            end = st[j].end
            header = src[kw.end:st[j].start]
            bo = None
            nxt = j + 1
        if kind == 'impl':
            name = norm(header)
        elif kind == 'use':
            name = norm(header)
        else:
            m = IDENT.search(header)
            name = m.group(0) if m else ''
        it = Item(kind, name, start, kw_start, bo, end, attrs)
        if kind in ('impl', 'mod', 'trait') and bo is not None:
            it.children = scan_items(src, bo + 1, end - 1)
        items.append(it)
        i = nxt
    return items


def impl_key(header: str) -> str:
    """'<S, K> ArcWake for StreamWaker<S, K> where S: Send,' -> 'ArcWake for StreamWaker'"""
    h = header
    h = re.split(r'\bwhere\b', h)[0]
    out = []; depth = 0
    for ch in h:
        if ch == '<':
            depth += 1
        elif ch == '>':
            depth = max(0, depth - 1)
        elif depth == 0:
            out.append(ch)
    return ' '.join(''.join(out).split())


def find_item(items: List[Item], selector: str, with_parent: bool = False):
    """selector: 'impl Decoder for ZmqCodec / fn decode'  |  'fn encode_frame'  |  'struct Frame'"""
    segs = [s.strip() for s in selector.split(' / ')]
    cur = items
    found = None
    parent = None
    for seg in segs:
        mm = re.match(r'([a-z_]+)\s*(.*)$', seg, re.S)
        kind, name = mm.group(1), norm(mm.group(2))
        cands = [it for it in cur if it.kind == kind and it.name == name]
        if not cands and kind == 'impl':
            # the impl header changed (a bound added or reordered, a where clause moved): fall back to "Trait for Type"
            # with all generic arguments and bounds stripped; unique, or made unique by the item looked for inside it
            key = impl_key(name)
            cands = [it for it in cur if it.kind == 'impl' and impl_key(it.name) == key]
        if len(cands) > 1 and kind == 'impl' and seg is not segs[-1]:
            # several impl blocks with this header (an impl split in two): the one that contains the item looked for
            nxt = segs[segs.index(seg) + 1]
            m2 = re.match(r'([a-z_]+)\s*(.*)$', nxt, re.S)
            cands = [it for it in cands if any(c.kind == m2.group(1) and c.name == norm(m2.group(2)) for c in it.children)]
        if len(cands) != 1:
            raise KeyError('anchor %r: %d matches for segment %r' % (selector, len(cands), seg))
        parent = found
        found = cands[0]
        cur = found.children
    if with_parent:
        return found, (parent if len(segs) > 1 else None)
    return found
