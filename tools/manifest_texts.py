HOOK_COMMITS = ['36a14d0']
NOTES = ('Technique family: contract-based deductive verification of the real code (see DESIGN.md). Exit 0 = all obligations of the property discharged '
         'on the text extracted from /repo on this run; exit 1 = a named obligation failed (VIOLATION line, replay file); exit 2 = undecided (lost anchor, '
         'unsupported construct, solver limit) and is never reported as a violation. Six genuine defects were found and repaired by fix: commits '
         '(known_findings.json, DESIGN.md section 5).')

CHECKS = {
    'C01': {
        'text': 'Verus proves the real encode_frame equal to the RFC 23 frame image (flags, 255/256 size boundary, 8 octet big-endian size, body) for every usize length and both MORE values, '
                'and the real decoder equal to an RFC-written resumable decoder specification; the greeting serialiser is proved octet for octet by a loop-free Kani harness over its full domain. '
                'Proof is the right level because the property quantifies over all messages and lengths, which no grid of tests covers.',
        'design_ref': 'DESIGN.md 4 (C01), 2, 3',
        'note': 'Assumed: specs of the bytes crate; ZmqCommand::try_from contract (Kani bounded for panic-freedom only); the message-level encode loop (enumerate) is a bounded Kani component; READY serialiser bounded. 64-bit target.',
        'technique': 'Verus contracts on extracted real functions vs RFC spec functions; Kani complete harness for the greeting',
    },
    'C02': {
        'text': 'Verus proves that each call of the real decode() performs exactly one step of the RFC stream decoder on (abstract state, pending bytes): Ok(None) loses no information, an item is returned exactly when the '
                'specification yields one, state and leftover bytes agree. Segmentation independence for every partition then follows by induction over the specification (lemmas in the same unit).',
        'design_ref': 'DESIGN.md 4 (C02)',
        'note': 'Assumed: asynchronous-codec FramedRead appends reads to one buffer and calls decode repeatedly without dropping bytes; the hand-over of the framed reader is a move (Rust ownership).',
        'technique': 'Verus: resumability contract on decode (loop invariant against a recursive spec function) + inductive lemmas',
    },
    'C04': {
        'text': 'Verus proves, on the real text: compatible() equals the RFC socket-compatibility relation for every pair with no precondition (total, symmetric by lemma); the identity rule (empty -> generated, >255 -> error, else verbatim); '
                'negotiate_version accepts exactly versions >= 3.0; ready_exchange returns Ok exactly when the single item read is a READY whose Socket-Type names a compatible type and whose Identity is <= 255 octets, and yields the announced identity; '
                'util::peer_connected calls the backend only under the precondition that both exchanges succeeded on that very connection. Name parsers (byte-string patterns) are discharged by Kani.',
        'design_ref': 'DESIGN.md 4 (C04)',
        'note': 'Assumed: framed read/write stand-ins with ghost logs; String hash-key axioms; generated identities are one abstract value (uniqueness not claimed). Not covered: that registration happens on the Ok path (effect behind Arc<dyn>), connection closing, monitor reporting. socktype_parse is bounded (length <= 8).',
        'technique': 'Verus contracts on extracted handshake functions (async skeletons) + Kani for name parsers and the 12x12 table',
    },
    'C03': {
        'text': 'Every index, slice, get_u8/u32/u64, split_to, advance, expect, arithmetic operation and recursion/loop measure in the byte-reachable synchronous code is a Verus obligation under no precondition but the representation invariant; '
                'allocation is bounded through a ghost counter on BytesMut::reserve; parsers Verus cannot read are covered by Kani (complete or bounded as labelled).',
        'design_ref': 'DESIGN.md 4 (C03)',
        'note': 'Not covered: panics in spawned tasks, other connections keep working, the PUB/XPUB subscription parser. Assumed specs of bytes carry the real panic conditions.',
        'technique': 'Verus panic-freedom / termination / allocation-bound obligations on extracted code; Kani for three parsers',
    },
}

NOT_APPLICABLE = {
    'C05': 'quantifies over arrival schedules and concurrent connect/disconnect; the mechanism (FairQueue::poll_next releasing a parking_lot lock around a checked-out stream, wakers firing on other threads) is outside what Verus (no Pin/Context/Waker/lock-guard specs, &mut model assumes no interference) or Kani (no threads, crashes on parking_lot, HashMap intractable) can express; the per-connection part is discharged under C02',
    'C06': 'liveness / fairness over adversarial schedules; wake-ups go through &Waker (no state a per-call contract can see)',
    'C07': 'not yet built in this session (planned: reqrep unit)',
    'C08': 'not yet built in this session (planned: reqrep unit)',
    'C09': 'not yet built in this session (planned: routing unit)',
    'C10': 'not yet built in this session (planned: routing unit)',
    'C11': 'the filter lives behind Pin<Box<FramedWrite>>::as_mut() and an scc cursor, the bookkeeping behind scc entry mutation and iter().position(closure): Verus parses none of these and Kani cannot run scc',
    'C12': 'about back-pressure schedules and the Sink polling protocol on Pin<&mut Self>; no per-call contract expresses it',
    'C13': 'about races between subscribe and background accepts; code mutates through a lock guard DerefMut and iterator adapters outside both tools',
    'C14': 'not yet built in this session (planned: await-point invariants in reqrep/routing units)',
    'C15': 'futures::select! expansion and scheduling',
    'C16': 'fault x schedule sequences, Drop and descriptor release, fair-queue internals',
    'C17': 'OS listeners, runtime task termination, Drop',
    'C18': 'observable behaviour is the OS listener\'s and the accept task\'s; the three-line HashMap bookkeeping does not decide the statement',
    'C19': 'the accepted language is defined by two regex patterns and std IPv4/IPv6 parsers; no contracts for a regex engine within reach and Kani cannot execute it',
    'C20': 'per-connection task spawning and scheduling',
}
