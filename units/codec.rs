// Verus unit `codec`: frame codec, greeting, decoder state machine (serves C01 C02 C03)
//@@ define STUB_ITER
#![feature(allocator_api)]
#![allow(unused_imports, dead_code, unused_variables, unused_mut, unused_parens)]
use vstd::prelude::*;
use bytes::{Buf, BufMut, Bytes, BytesMut};
use std::collections::vec_deque::VecDeque;
use std::collections::HashMap;
use std::convert::{From, TryFrom};
use vstd::std_specs::iter::IteratorSpec;
verus! {
global size_of usize == 8;
//@@ include prelude/bytes_specs.rs
//@@ include prelude/std_specs.rs
//@@ include prelude/spec_zmtp.rs
//@@ include prelude/message_items.rs
//@@ include prelude/enum_iter.rs
//@@ include prelude/spec_zmtp_lemmas.rs

//@@ include prelude/codec_types.rs

// ---- mechanism (src/codec/mechanism.rs) ----

pub open spec fn mech_name(m: ZmqMechanism) -> Seq<u8> {
    match m {
        ZmqMechanism::NULL => seq![0x4eu8, 0x55, 0x4c, 0x4c],
        ZmqMechanism::PLAIN => seq![0x50u8, 0x4c, 0x41, 0x49, 0x4e],
        ZmqMechanism::CURVE => seq![0x43u8, 0x55, 0x52, 0x56, 0x45],
    }
}
/// RFC 23: the mechanism field is 20 octets, the name padded with NULs; the name is what
/// precedes the first NUL.
pub open spec fn first_nul(s: Seq<u8>) -> int
    decreases s.len()
{
    if s.len() == 0 || s[0] == 0u8 { 0 } else { 1 + first_nul(s.subrange(1, s.len() as int)) }
}
pub open spec fn rfc_mech_parse(field: Seq<u8>) -> Option<ZmqMechanism> {
    let name = field.subrange(0, first_nul(field));
    if name == mech_name(ZmqMechanism::NULL) { Some(ZmqMechanism::NULL) }
    else if name == mech_name(ZmqMechanism::PLAIN) { Some(ZmqMechanism::PLAIN) }
    else if name == mech_name(ZmqMechanism::CURVE) { Some(ZmqMechanism::CURVE) }
    else { None }
}

impl ZmqMechanism {
// as_str: contract ASSUMED here (str octets), DISCHARGED by Kani `greeting_ser` (the names it writes are checked octet for octet)
//@ item src/codec/mechanism.rs :: impl ZmqMechanism / fn as_str
//@ attr
//@|    #[verifier::external_body]
//@ ret r
//@ spec
//@|        ensures str_bytes(r) == mech_name(*self),
//@ end
}
impl vstd::std_specs::convert::TryFromSpecImpl<&[u8]> for ZmqMechanism {
    open spec fn obeys_try_from_spec() -> bool { false }
    open spec fn try_from_spec(v: &[u8]) -> Result<Self, CodecError> { arbitrary() }
}
// ZmqMechanism::try_from uses slice.split(closure) and byte-string patterns: outside Verus.
// Its contract is ASSUMED here and DISCHARGED by the Kani harness `mech_parse` (complete for
// the 20-octet field).
//@ item src/codec/mechanism.rs :: impl TryFrom<&[u8]> for ZmqMechanism
//@ fn try_from
//@ attr
//@|    #[verifier::external_body]
//@ ret r
//@ spec
//@|        ensures
//@|            r matches Ok(m) ==> rfc_mech_parse(value@) == Some(m),
//@|            r is Err ==> rfc_mech_parse(value@) is None,
//@ end

// ---- greeting (src/codec/greeting.rs) ----

/// RFC 23 greeting grammar: what a 64 octet block must look like, and what it means
pub open spec fn rfc_greeting_parse(g: Seq<u8>) -> Option<ZmqGreeting> {
    if g.len() != 64 || g[0] != 0xffu8 || g[9] != 0x7fu8 { None }
    else {
        match rfc_mech_parse(g.subrange(12, 32)) {
            None => None,
            Some(m) => Some(ZmqGreeting { version: (g[10], g[11]), mechanism: m, as_server: g[32] == 0x01u8 }),
        }
    }
}
pub open spec fn rfc_greeting_ok(g: Seq<u8>) -> bool { rfc_greeting_parse(g) is Some }

impl vstd::std_specs::convert::TryFromSpecImpl<Bytes> for ZmqGreeting {
    open spec fn obeys_try_from_spec() -> bool { false }
    open spec fn try_from_spec(v: Bytes) -> Result<Self, CodecError> { arbitrary() }
}
//@ item src/codec/greeting.rs :: impl TryFrom<Bytes> for ZmqGreeting
//@ fn try_from
//@ ret r
//@ spec
//@|        ensures
//@|            r matches Ok(g) ==> rfc_greeting_parse(b_view(&value)) == Some(g),
//@|            r is Err ==> rfc_greeting_parse(b_view(&value)) is None,
//@ end

// ---- command (src/codec/command.rs): parser is outside Verus (byte-string patterns) ----
// RFC 23 command grammar:  command-body = command-name-size(1) command-name *property
//   property = name-size(1) name value-size(4, network order) value
// The only command of ZMTP 3.0/NULL is READY.  (The library accepts any UTF-8 property name; RFC
// name-char is narrower - the leniency is not part of any listed property.)
pub uninterp spec fn utf8_ok(s: Seq<u8>) -> bool;
pub open spec fn ready_name() -> Seq<u8> { seq![0x52u8, 0x45, 0x41, 0x44, 0x59] }
pub open spec fn drop_first(s: Seq<u8>, n: int) -> Seq<u8> { s.subrange(n, s.len() as int) }
pub open spec fn rfc_props_ok(s: Seq<u8>) -> bool
    decreases s.len()
{
    if s.len() == 0 { true }
    else {
        let pl = s[0] as int;                       // name-size
        let s1 = drop_first(s, 1);
        if s1.len() < pl { false }
        else {
            let name = s1.subrange(0, pl);
            let s2 = drop_first(s1, pl);
            if !utf8_ok(name) || s2.len() < 4 { false }
            else {
                let vl = be32_val(s2.subrange(0, 4)) as int;   // value-size, network order
                let s3 = drop_first(s2, 4);
                if s3.len() < vl { false } else { rfc_props_ok(drop_first(s3, vl)) }
            }
        }
    }
}
pub open spec fn rfc_command_ok(body: Seq<u8>) -> bool {
    &&& body.len() >= 1
    &&& drop_first(body, 1).len() >= body[0]
    &&& drop_first(body, 1).subrange(0, body[0] as int) == ready_name()
    &&& rfc_props_ok(drop_first(drop_first(body, 1), body[0] as int))
}

/// the properties of a well-formed property block, in wire order (name octets, value octets)
pub open spec fn rfc_props_list(s: Seq<u8>) -> Seq<(Seq<u8>, Seq<u8>)>
    decreases s.len()
{
    if s.len() == 0 || !rfc_props_ok(s) { Seq::empty() }
    else {
        let pl = s[0] as int;
        let s1 = drop_first(s, 1);
        let name = s1.subrange(0, pl);
        let s2 = drop_first(s1, pl);
        let vl = be32_val(s2.subrange(0, 4)) as int;
        let s3 = drop_first(s2, 4);
        seq![(name, s3.subrange(0, vl))] + rfc_props_list(drop_first(s3, vl))
    }
}
/// value of the LAST property with this name (a later property overrides an earlier one of the same name)
pub open spec fn props_lookup(l: Seq<(Seq<u8>, Seq<u8>)>, name: Seq<u8>) -> Option<Seq<u8>>
    decreases l.len()
{
    if l.len() == 0 { None }
    else if l.last().0 == name { Some(l.last().1) }
    else { props_lookup(l.drop_last(), name) }
}
/// what the parsed command says about property `key`
pub open spec fn cmd_lookup(m: Map<String, Bytes>, key: String) -> Option<Seq<u8>> {
    if m.contains_key(key) { Some(b_view(&m[key])) } else { None }
}
/// the property block of a command body (after name-size and name)
pub open spec fn rfc_props_of(body: Seq<u8>) -> Seq<u8> { drop_first(drop_first(body, 1), body[0] as int) }
// ASSUMED about std String: a String is determined by its octets (UTF-8), it is a well-behaved hash key
pub mod string_axioms {
use super::*;
pub broadcast axiom fn axiom_string_obeys_key_model()
    ensures #[trigger] vstd::std_specs::hash::obeys_key_model::<String>();
pub broadcast axiom fn axiom_string_by_bytes(a: String, b: String)
    ensures #[trigger] string_bytes(&a) == #[trigger] string_bytes(&b) ==> a == b;
pub broadcast group group_string { axiom_string_obeys_key_model, axiom_string_by_bytes }
}
pub proof fn lemma_props_list_unfold(s: Seq<u8>)
    requires s.len() > 0, rfc_props_ok(s),
    ensures ({
        let pl = s[0] as int; let s1 = drop_first(s, 1); let s2 = drop_first(s1, pl);
        let vl = be32_val(s2.subrange(0, 4)) as int; let s3 = drop_first(s2, 4);
        rfc_props_list(s) == seq![(s1.subrange(0, pl), s3.subrange(0, vl))] + rfc_props_list(drop_first(s3, vl))
    }),
{}

// A-REGION-2 (D5): `match &buf[..command_len] { b"READY" => .., _ => return Err(..) }` uses a byte-string
// slice pattern, which crashes Verus.  The match is replaced by this stub; its ASSUMED contract carries the
// slice's panic condition as precondition.  Kani `cmd_name_only` checks the region on the real function.
#[verifier::external_body]
fn assumed_command_name(buf: &Bytes, command_len: usize) -> (r: Option<ZmqCommandName>)
    requires command_len <= b_view(buf).len(),
    ensures r is Some <==> b_view(buf).subrange(0, command_len as int) == ready_name(),
            r matches Some(c) ==> c is READY,
{ unimplemented!() }

#[verifier::external_type_specification]
#[verifier::external_body]
pub struct ExFromUtf8Error(std::string::FromUtf8Error);
pub assume_specification[ String::from_utf8 ](v: Vec<u8>) -> (r: Result<String, std::string::FromUtf8Error>)
    ensures r is Ok <==> utf8_ok(v@),
            r matches Ok(s) ==> string_bytes(&s) == v@;
pub assume_specification<T: Clone>[ <[T]>::to_vec ](s: &[T]) -> (r: Vec<T>)
    ensures r@ == s@;

impl vstd::std_specs::convert::TryFromSpecImpl<Bytes> for ZmqCommand {
    open spec fn obeys_try_from_spec() -> bool { false }
    open spec fn try_from_spec(v: Bytes) -> Result<Self, CodecError> { arbitrary() }
}
//@ item src/codec/command.rs :: impl TryFrom<Bytes> for ZmqCommand
//@ fn try_from
//@ attr
//@|    #[verifier::loop_isolation(false)]
//@ ret r
//@ region "let command = match &buf[..command_len]"
//@|        let command = match assumed_command_name(&buf, command_len) { Some(c) => c, None => return Err(CodecError::Command("Unknown command received")) }
//@ region-text
//@|        let command = match &buf[..command_len] {
//@|            b"READY" => ZmqCommandName::READY,
//@|            _ => return Err(CodecError::Command("Unknown command received")),
//@|        }
//@ spec
//@|        ensures
//@|            r is Ok <==> rfc_command_ok(b_view(&buf)),
//@|            r matches Ok(c) ==> c.name is READY,
//@|            // the property map is exactly what the RFC grammar reads from the octets (last one wins)
//@|            r matches Ok(c) ==> forall|k: String| cmd_lookup(c.properties@, k) == #[trigger] props_lookup(rfc_props_list(rfc_props_of(b_view(&buf))), string_bytes(&k)),
//@ loopbody 1
//@|            broadcast use string_axioms::group_string;
//@|            broadcast use vstd::std_specs::hash::group_hash_axioms;
//@|            proof { if b_view(&buf).len() > 0 && rfc_props_ok(b_view(&buf)) { lemma_props_list_unfold(b_view(&buf)); } }
//@|            let ghost cur0 = b_view(&buf);
//@|            let ghost done0 = done;
//@ loopend 1
//@|            proof {
//@|                let pb = string_bytes(&property);
//@|                done = done0.push((pb, b_view(&prop_value)));
//@|                assert(done.drop_last() =~= done0);
//@|                assert(done.last() == (pb, b_view(&prop_value)));
//@|                if rfc_props_ok(b_view(&buf)) {
//@|                    assert(rfc_props_ok(cur0));
//@|                    assert(rfc_props_list(cur0) =~= seq![(pb, b_view(&prop_value))] + rfc_props_list(b_view(&buf)));
//@|                    assert(done0 + rfc_props_list(cur0) =~= done + rfc_props_list(b_view(&buf)));
//@|                }
//@|                assert forall|k: String| cmd_lookup(properties@, k) == #[trigger] props_lookup(done, string_bytes(&k)) by {
//@|                    if k == property {
//@|                    } else {
//@|                        assert(string_bytes(&k) != pb);
//@|                        assert(props_lookup(done, string_bytes(&k)) == props_lookup(done0, string_bytes(&k)));
//@|                    }
//@|                }
//@|            }
//@ loop 1
//@|            invariant
//@|                rfc_props_ok(b_view(&buf)) ==> rfc_props_list(rfc_props_of(b_view(&old_buf))) == done + rfc_props_list(b_view(&buf)),
//@|                forall|k: String| cmd_lookup(properties@, k) == #[trigger] props_lookup(done, string_bytes(&k)),
//@|                rfc_props_ok(b_view(&buf)) == rfc_props_ok(drop_first(drop_first(b_view(&old_buf), 1), b_view(&old_buf)[0] as int)),
//@|                b_view(&old_buf).len() >= 1,
//@|                drop_first(b_view(&old_buf), 1).len() >= b_view(&old_buf)[0],
//@|                drop_first(b_view(&old_buf), 1).subrange(0, b_view(&old_buf)[0] as int) == ready_name(),
//@|                command is READY,
//@|            decreases b_view(&buf).len(),
//@ hint start
//@|        broadcast use string_axioms::group_string;
//@|        broadcast use vstd::std_specs::hash::group_hash_axioms;
//@|        let ghost old_buf = buf;
//@|        let ghost mut done: Seq<(Seq<u8>, Seq<u8>)> = Seq::empty();
//@ end


// ---- READY serialiser (src/codec/command.rs, `From<ZmqCommand> for BytesMut`) ----
// RFC 23:  command = command-size(1 or 8) command-body ;  flags 0x04 (short) / 0x06 (long)
//          command-body = name-size(1) "READY" *( prop-name-size(1) prop-name value-size(4) value )
/// the octets of a String (its UTF-8 encoding)
pub uninterp spec fn string_bytes(s: &String) -> Seq<u8>;
pub assume_specification[ String::len ](s: &String) -> (r: usize)
    ensures r == string_bytes(s).len();
pub assume_specification[ <String as core::convert::AsRef<[u8]>>::as_ref ](s: &String) -> (r: &[u8])
    ensures r@ == string_bytes(s);
pub assume_specification[ <str as core::convert::AsRef<[u8]>>::as_ref ](s: &str) -> (r: &[u8])
    ensures r@ == str_bytes(s);

impl ZmqCommandName {
// "READY": contract ASSUMED here (str octets), DISCHARGED by Kani `cmdname_as_str` (complete)
//@ item src/codec/command.rs :: impl ZmqCommandName / fn as_str
//@ attr
//@|    #[verifier::external_body]
//@ ret r
//@ spec
//@|        ensures str_bytes(r) == ready_name(),
//@ end
}

pub type PropRef<'a> = (&'a String, &'a Bytes);
pub open spec fn rfc_prop(kv: PropRef) -> Seq<u8> {
    seq![string_bytes(kv.0).len() as u8] + string_bytes(kv.0) + be32(b_view(kv.1).len() as u32) + b_view(kv.1)
}
pub open spec fn prop_size(kv: PropRef) -> int { (string_bytes(kv.0).len() + 1 + b_view(kv.1).len() + 4) as int }
pub open spec fn props_size(s: Seq<PropRef>) -> int {
    s.fold_left(0int, |acc: int, kv: PropRef| acc + prop_size(kv))
}
pub open spec fn props_bytes(s: Seq<PropRef>) -> Seq<u8>
    decreases s.len()
{
    if s.len() == 0 { Seq::empty() } else { props_bytes(s.drop_last()) + rfc_prop(s.last()) }
}
/// the READY body for the properties in the order `s`
pub open spec fn rfc_ready_body(s: Seq<PropRef>) -> Seq<u8> {
    seq![5u8] + ready_name() + props_bytes(s)
}
/// the command frame: flags 0x04 + 1 octet size, or 0x06 + 8 octet size, then the body
pub open spec fn rfc_command_frame(body: Seq<u8>) -> Seq<u8> { rfc_frame(body, false, true) }
/// every name fits its 1 octet size and every value its 4 octet size
pub open spec fn props_fit(s: Seq<PropRef>) -> bool {
    forall|i: int| 0 <= i < s.len() ==> string_bytes((#[trigger] s[i]).0).len() <= 255 && b_view(s[i].1).len() <= 0xffff_ffff
}
pub proof fn lemma_ready_step(s: Seq<PropRef>, i: int)
    requires 0 <= i < s.len(),
    ensures
        props_size(s.take(i + 1)) == props_size(s.take(i)) + prop_size(s[i]),
        props_bytes(s.take(i + 1)) == props_bytes(s.take(i)) + rfc_prop(s[i]),
        props_size(s.take(i)) >= 0,
{
    let t = s.take(i + 1);
    assert(t.drop_last() =~= s.take(i));
    assert(t.last() == s[i]);
    lemma_ready_size_nonneg(s.take(i));
}
pub proof fn lemma_ready_size_nonneg(s: Seq<PropRef>)
    ensures props_size(s) >= 0,
    decreases s.len()
{
    if s.len() > 0 { lemma_ready_size_nonneg(s.drop_last()); }
}
pub proof fn lemma_ready_bytes_len(s: Seq<PropRef>)
    ensures props_bytes(s).len() == props_size(s),
    decreases s.len()
{
    if s.len() > 0 { lemma_ready_bytes_len(s.drop_last()); }
}
pub proof fn lemma_ready_take_le(s: Seq<PropRef>, i: int)
    requires 0 <= i <= s.len(),
    ensures 0 <= props_size(s.take(i)) <= props_size(s),
    decreases s.len() - i
{
    lemma_ready_size_nonneg(s.take(i));
    if i < s.len() {
        lemma_ready_step(s, i);
        lemma_ready_take_le(s, i + 1);
    } else {
        assert(s.take(i) =~= s);
    }
}
/// the closing argument of the serialiser proof: the first pass computed the size of the body that the second
/// pass wrote (two enumerations of the same map weigh the same), so the size field of the frame is exact
pub proof fn lemma_ready_final(m: Map<String, Bytes>, s1: Seq<PropRef>, s2: Seq<PropRef>, message_len: int, hdr0: Seq<u8>, out: Seq<u8>)
    requires
        s1.unref().to_set() == m.kv_pairs(), s1.no_duplicates(),
        s2.unref().to_set() == m.kv_pairs(), s2.no_duplicates(),
        message_len == 6 + props_size(s1),
        out =~= hdr0 + (seq![5u8] + ready_name() + props_bytes(s2)),
        0 <= message_len <= 0xffff_ffff_ffff_ffff,
        hdr0 =~= (if message_len > 255 { seq![6u8] + be64(message_len as u64) } else { seq![4u8, message_len as u8] }),
    ensures
        exists|s: Seq<PropRef>| s.unref().to_set() == m.kv_pairs() && s.no_duplicates()
            && #[trigger] rfc_command_frame(rfc_ready_body(s)) == out,
{
    lemma_ready_unref_same(s1, s2);
    lemma_ready_perm_size(s1, s2);
    lemma_ready_bytes_len(s2);
    let body = rfc_ready_body(s2);
    assert(body.len() == 6 + props_size(s2));
    assert(body.len() == message_len);
    assert(rfc_command_frame(body) =~= out);
}
/// sequences of references enumerate the same pairs iff their de-referenced images do
pub proof fn lemma_ready_unref_same(a: Seq<PropRef>, b: Seq<PropRef>)
    requires a.unref().to_set() == b.unref().to_set(),
    ensures a.to_set() == b.to_set(),
{
    assert forall|x: PropRef| a.to_set().contains(x) == b.to_set().contains(x) by {
        lemma_ready_unref_contains(a, x);
        lemma_ready_unref_contains(b, x);
        assert(a.to_set().contains(x) == a.contains(x));
        assert(b.to_set().contains(x) == b.contains(x));
        assert(a.unref().to_set().contains((*x.0, *x.1)) == a.unref().contains((*x.0, *x.1)));
        assert(b.unref().to_set().contains((*x.0, *x.1)) == b.unref().contains((*x.0, *x.1)));
        assert(a.unref().to_set().contains((*x.0, *x.1)) == b.unref().to_set().contains((*x.0, *x.1)));
    }
    assert(a.to_set() =~= b.to_set());
}
pub proof fn lemma_ready_unref_contains(a: Seq<PropRef>, x: PropRef)
    ensures a.contains(x) == a.unref().contains((*x.0, *x.1)),
{
    if a.contains(x) {
        let i = choose|i: int| 0 <= i < a.len() && a[i] == x;
        assert(a.unref()[i] == (*x.0, *x.1));
    }
    if a.unref().contains((*x.0, *x.1)) {
        let i = choose|i: int| 0 <= i < a.unref().len() && a.unref()[i] == (*x.0, *x.1);
        assert(a[i] == x);
    }
}
/// two enumerations of the same map weigh the same
pub proof fn lemma_ready_perm_size(a: Seq<PropRef>, b: Seq<PropRef>)
    requires a.no_duplicates(), b.no_duplicates(), a.to_set() == b.to_set(),
    ensures props_size(a) == props_size(b),
{
    let f = |acc: int, kv: PropRef| acc + prop_size(kv);
    a.lemma_multiset_has_no_duplicates();
    b.lemma_multiset_has_no_duplicates();
    broadcast use vstd::seq_lib::group_to_multiset_ensures;
    assert forall|x: PropRef| a.to_multiset().count(x) == b.to_multiset().count(x) by {
        assert(a.contains(x) == a.to_set().contains(x));
        assert(b.contains(x) == b.to_set().contains(x));
    }
    assert(a.to_multiset() =~= b.to_multiset());
    assert(vstd::seq_lib::commutative_foldl(f));
    vstd::seq_lib::lemma_fold_left_permutation(a, b, f, 0int);
}

impl ZmqCommand {
//@ item src/codec/command.rs :: impl From<ZmqCommand> for BytesMut / fn from
//@ name ZmqCommand::serialize
//@ inherent
//@ self-type BytesMut
//@ attr
//@|    #[verifier::loop_isolation(false)]
//@|    #[verifier::rlimit(100)]
//@ ret r
//@ spec
//@|        requires
//@|            vstd::std_specs::hash::obeys_key_model::<String>(),
//@|            // every property fits the RFC size fields, and the whole command fits an allocation
//@|            forall|k: String| #[trigger] command.properties@.contains_key(k) ==> string_bytes(&k).len() <= 255 && b_view(&command.properties@[k]).len() <= 0xffff_ffff,
//@|            forall|s: Seq<PropRef>| s.unref().to_set() == command.properties@.kv_pairs() && s.no_duplicates() ==> #[trigger] props_size(s) <= 0x3fff_ffff_ffff_ffff,
//@|        ensures
//@|            // ONE command frame whose size field is exact, carrying READY and every property exactly once
//@|            exists|s: Seq<PropRef>| s.unref().to_set() == command.properties@.kv_pairs() && s.no_duplicates()
//@|                && #[trigger] rfc_command_frame(rfc_ready_body(s)) == bm_view(&r),
//@ hint start
//@|        broadcast use vstd::std_specs::hash::group_hash_axioms;
//@|        let ghost mut h1: Seq<PropRef> = Seq::empty();
//@|        let ghost mut h2: Seq<PropRef> = Seq::empty();
//@ loop 1 it1
//@|            invariant
//@|                h1 == it1.history(), it1.history() == it1.seq().take(it1.index() as int),
//@|                it1.index() == it1.seq().len() ==> h1 == it1.seq(),
//@|                message_len == 6 + props_size(h1),
//@|                it1.seq().unref().to_set() == command.properties@.kv_pairs(), it1.seq().no_duplicates(),
//@ loopbody 1
//@|            proof {
//@|                lemma_ready_step(it1.seq(), it1.index() as int);
//@|                lemma_ready_take_le(it1.seq(), it1.index() + 1);
//@|                assert(props_size(it1.seq()) <= 0x3fff_ffff_ffff_ffff);
//@|            }
//@ loopend 1
//@|            proof { h1 = h1.push((prop, val)); assert(h1 =~= it1.seq().take(it1.index() as int + 1)); }
//@ loop 2 it2
//@|            invariant
//@|                h2 == it2.history(), it2.history() == it2.seq().take(it2.index() as int),
//@|                it2.index() == it2.seq().len() ==> h2 == it2.seq(),
//@|                it2.seq().unref().to_set() == command.properties@.kv_pairs(), it2.seq().no_duplicates(),
//@|                bm_view(&bytes) == hdr0 + (seq![5u8] + ready_name() + props_bytes(h2)),
//@ loopbody 2
//@|            proof { lemma_ready_step(it2.seq(), it2.index() as int); }
//@ loopend 2
//@|            proof { h2 = h2.push((prop, val)); assert(h2 =~= it2.seq().take(it2.index() as int + 1)); }
//@ hint before "bytes.put_u8(command_name.len() as u8);"
//@|        let ghost hdr0 = bm_view(&bytes);
//@ hint tail
//@|        proof { lemma_ready_final(command.properties@, h1, h2, message_len as int, hdr0, bm_view(&bytes)); }
//@ end
}

impl vstd::std_specs::convert::FromSpecImpl<Bytes> for ZmqMessage {
    open spec fn obeys_from_spec() -> bool { false }
    open spec fn from_spec(v: Bytes) -> Self { arbitrary() }
}
//@ item src/message.rs :: impl From<Bytes> for ZmqMessage
//@ fn from
//@ ret r
//@ spec
//@|        ensures r.fr() == seq![b],
//@ end

pub open spec fn item_matches(m: Message, it: SItem) -> bool {
    match (m, it) {
        (Message::Greeting(g), SItem::Greeting(bytes)) => rfc_greeting_parse(bytes) == Some(g),
        (Message::Command(c), SItem::Command(body)) => c.name is READY && rfc_command_ok(body),
        (Message::Message(msg), SItem::Message(frames)) => msg.bodies() == frames,
        _ => false,
    }
}

// ---- the codec (src/codec/zmq_codec.rs) ----
//@@ consts src/codec/zmq_codec.rs
// asynchronous-codec's default `decode_eof` (leftover octets at end of input are an error; nothing but what `decode`
// yields is ever yielded) and default Encoder methods are assumptions: an override is code no contract reads
//@@ closed-impl src/codec/zmq_codec.rs :: impl Decoder for ZmqCodec :: decode
//@@ closed-impl src/codec/zmq_codec.rs :: impl Encoder for ZmqCodec :: encode
//@@ consts src/codec/command.rs
//@ item src/codec/zmq_codec.rs :: struct Frame
//@ end
//@ item src/codec/zmq_codec.rs :: enum DecoderState
//@ end
//@ item src/codec/zmq_codec.rs :: struct ZmqCodec
//@ end

pub closed spec fn frame_flags(f: Frame) -> SFlags { SFlags { command: f.command, long: f.long, more: f.more } }

impl ZmqCodec {
    /// representation invariant
    pub closed spec fn wf(&self) -> bool {
        match self.state {
            DecoderState::Greeting => self.waiting_for == 64,
            DecoderState::FrameHeader => self.waiting_for == 1,
            DecoderState::FrameLen(f) => self.waiting_for == (if f.long { 8usize } else { 1usize }),
            DecoderState::Frame(f) => true,
        }
    }
    /// abstraction function onto the RFC decoder state
    pub closed spec fn abs(&self) -> DAbs {
        DAbs {
            phase: match self.state {
                DecoderState::Greeting => DPhase::Greeting,
                DecoderState::FrameHeader => DPhase::Header,
                DecoderState::FrameLen(f) => DPhase::Len(frame_flags(f)),
                DecoderState::Frame(f) => DPhase::Body(frame_flags(f), self.waiting_for as nat),
            },
            partial: match self.buffered_message {
                Some(m) => m.bodies(),
                None => Seq::empty(),
            },
        }
    }
    /// header -> length -> body may recurse; recursion per frame may not (stack depth must not
    /// depend on the number of frames a peer packs into one read)
    pub closed spec fn rank(&self) -> nat {
        match self.state {
            DecoderState::Greeting => 0,
            DecoderState::FrameHeader => 2,
            DecoderState::FrameLen(f) => 1,
            DecoderState::Frame(f) => 0,
        }
    }

//@ item src/codec/zmq_codec.rs :: impl ZmqCodec / fn new
//@ ret r
//@ spec
//@|        ensures r.wf(), r.abs() == (DAbs { phase: DPhase::Greeting, partial: Seq::empty() }),
//@ end

//@ item src/codec/zmq_codec.rs :: impl Decoder for ZmqCodec / fn decode
//@ inherent
//@ ret r
//@ spec
//@|        requires old(self).wf(),
//@|        ensures
//@|            decode_post(old(self).abs(), bm_view(old(src)), r, *final(self), bm_view(final(src))),
//@|            bm_reserved(final(src)) <= bm_reserved(old(src)) + 65536 + bm_view(old(src)).len(),
//@|        decreases old(self).rank(),
//@ hint start
//@|        broadcast use fv_lemmas::group_frames_view;
//@ loopbody? 1
//@|            broadcast use fv_lemmas::group_frames_view;
//@ loop? 1
//@|            invariant
//@|                self.wf(),
//@|                rfc_step(self.abs(), bm_view(src)) == rfc_step(old(self).abs(), bm_view(old(src))),
//@|                bm_reserved(src) == bm_reserved(old(src)),
//@|            decreases bm_view(src).len(), phase_rank(self.abs().phase),
//@ end
}

pub open spec fn decode_post(st0: DAbs, buf0: Seq<u8>, r: Result<Option<Message>, CodecError>, c1: ZmqCodec, buf1: Seq<u8>) -> bool {
    match rfc_step(st0, buf0) {
        Step::NeedMore(st1, rest) => r == Ok::<Option<Message>, CodecError>(None) && c1.wf() && c1.abs() == st1 && buf1 == rest,
        Step::Item(it, st1, rest) => r is Ok && r->Ok_0 is Some && item_matches(r->Ok_0->Some_0, it) && c1.wf() && c1.abs() == st1 && buf1 == rest,
        Step::Error => r is Err,
    }
}

//@ item src/codec/zmq_codec.rs :: fn encode_frame
//@ spec
//@|    ensures bm_view(final(dst)) == bm_view(old(dst)) + rfc_frame(b_view(frame), more, false),
//@ hint end
//@|    proof {
//@|        assert(0u8 | 1u8 == 1u8) by(bit_vector);
//@|        assert(0u8 | 2u8 == 2u8) by(bit_vector);
//@|        assert(1u8 | 2u8 == 3u8) by(bit_vector);
//@|        assert(bm_view(dst) =~= bm_view(old(dst)) + rfc_frame(b_view(frame), more, false));
//@|    }
//@ end

// ---- <ZmqCodec as Encoder>::encode (src/codec/zmq_codec.rs): the multipart loop ----
/// wire image of the first k frames of a message of n frames (MORE on all but the last of the n)
pub open spec fn rfc_msg_upto(frames: Seq<Seq<u8>>, k: int) -> Seq<u8>
    decreases k
{
    if k <= 0 { Seq::empty() } else { rfc_msg_upto(frames, k - 1) + rfc_frame(frames[k - 1], k - 1 < frames.len() - 1, false) }
}
/// the frame-by-frame image is the RFC image of the message
pub proof fn lemma_roundtrip_upto(frames: Seq<Seq<u8>>, k: int)
    requires 0 <= k <= frames.len(),
    ensures rfc_msg_upto(frames, frames.len() as int) == rfc_msg_upto(frames, k) + rfc_msg_from(frames, k),
    decreases frames.len() - k
{
    if k < frames.len() {
        lemma_roundtrip_upto(frames, k + 1);
        assert(rfc_msg_upto(frames, k + 1) == rfc_msg_upto(frames, k) + rfc_frame(frames[k], k < frames.len() - 1, false));
        assert(rfc_msg_from(frames, k) == rfc_frame(frames[k], k < frames.len() - 1, false) + rfc_msg_from(frames, k + 1));
        assert((rfc_msg_upto(frames, k) + rfc_frame(frames[k], k < frames.len() - 1, false)) + rfc_msg_from(frames, k + 1)
            =~= rfc_msg_upto(frames, k) + (rfc_frame(frames[k], k < frames.len() - 1, false) + rfc_msg_from(frames, k + 1)));
    } else {
        assert(rfc_msg_from(frames, k) =~= Seq::<u8>::empty());
        assert(rfc_msg_upto(frames, k) + Seq::<u8>::empty() =~= rfc_msg_upto(frames, k));
    }
}
/// image of frames k.. of the message
pub open spec fn rfc_msg_from(frames: Seq<Seq<u8>>, k: int) -> Seq<u8>
    decreases frames.len() - k
{
    if k < 0 || k >= frames.len() { Seq::empty() } else { rfc_frame(frames[k], k < frames.len() - 1, false) + rfc_msg_from(frames, k + 1) }
}
pub proof fn lemma_roundtrip_from_is_msg(frames: Seq<Seq<u8>>, k: int)
    requires 0 <= k <= frames.len(),
    ensures rfc_msg_from(frames, k) == rfc_msg(frames.subrange(k, frames.len() as int)),
    decreases frames.len() - k
{
    let t = frames.subrange(k, frames.len() as int);
    if k < frames.len() {
        lemma_roundtrip_from_is_msg(frames, k + 1);
        assert(t[0] == frames[k]);
        assert(t.subrange(1, t.len() as int) =~= frames.subrange(k + 1, frames.len() as int));
        assert((t.len() > 1) == (k < frames.len() - 1));
    }
}
pub proof fn lemma_roundtrip_upto_is_msg(frames: Seq<Seq<u8>>)
    ensures rfc_msg_upto(frames, frames.len() as int) == rfc_msg(frames),
{
    lemma_roundtrip_upto(frames, 0);
    lemma_roundtrip_from_is_msg(frames, 0);
    assert(frames.subrange(0, frames.len() as int) =~= frames);
    assert(rfc_msg_upto(frames, 0) + rfc_msg_from(frames, 0) =~= rfc_msg_from(frames, 0));
}

// the two serialisers `encode` dispatches to: STUBS here.  `From<ZmqGreeting>` is proved by Kani `greeting_ser`
// (complete); `From<ZmqCommand>` is the function verified above as ZmqCommand::serialize.
impl vstd::std_specs::convert::FromSpecImpl<ZmqGreeting> for BytesMut {
    open spec fn obeys_from_spec() -> bool { false }
    open spec fn from_spec(v: ZmqGreeting) -> Self { arbitrary() }
}
impl From<ZmqGreeting> for BytesMut {
    #[verifier::external_body]
    fn from(g: ZmqGreeting) -> Self { unimplemented!() }
}
impl vstd::std_specs::convert::FromSpecImpl<ZmqCommand> for BytesMut {
    open spec fn obeys_from_spec() -> bool { false }
    open spec fn from_spec(v: ZmqCommand) -> Self { arbitrary() }
}
impl From<ZmqCommand> for BytesMut {
    #[verifier::external_body]
    fn from(c: ZmqCommand) -> Self { unimplemented!() }
}
pub assume_specification[ BytesMut::unsplit ](b: &mut BytesMut, other: BytesMut)
    ensures bm_view(final(b)) == bm_view(old(b)) + bm_view(&other);

impl ZmqCodec {
//@ item src/codec/zmq_codec.rs :: impl Encoder for ZmqCodec / fn encode
//@ name ZmqCodec::encode
//@ inherent
//@ attr
//@|    #[verifier::loop_isolation(false)]
//@ ret r
//@ spec
//@|        requires message matches Message::Message(m) ==> m.fr().len() >= 1,
//@|        ensures
//@|            r is Ok,
//@|            // C01: a message goes on the wire as exactly the RFC frame sequence of its frames
//@|            message matches Message::Message(m) ==> bm_view(final(dst)) == bm_view(old(dst)) + rfc_msg(m.bodies()),
//@ loop 1 it
//@|                    invariant
//@|                        it.seq() == Seq::new(message.fr().len(), |i: int| (i as usize, &message.fr()[i])),
//@|                        bm_view(dst) == bm_view(old(dst)) + rfc_msg_upto(message.bodies(), it.index() as int),
//@ loopbody 1
//@|                    broadcast use fv_lemmas::group_frames_view;
//@|                    proof {
//@|                        assert(it.seq()[it.index() as int] == (idx, part));
//@|                        assert(idx == it.index() && *part == message.fr()[idx as int]);
//@|                        assert(message.bodies()[idx as int] == b_view(part));
//@|                    }
//@ afterloop 1
//@|                proof { lemma_roundtrip_upto_is_msg(message.bodies()); }
//@ end
}

} // verus!
fn main() {}
