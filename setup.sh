#!/bin/sh
# Offline setup: build the real `bytes` crate with Verus's toolchain (linked into every Verus unit)
# and warm the Kani build cache. Everything comes from the local cargo registry.
set -e
cd "$(dirname "$0")"
export CARGO_NET_OFFLINE=true
python3 - <<'PY'
import sys
sys.path.insert(0, 'tools')
import vrun
print('bytes rlib:', vrun.ensure_ext())
PY
python3 tools/kani_run.py greeting_default >/dev/null 2>&1 || echo "note: kani warm-up did not succeed (checks will build on demand)"
echo setup done
