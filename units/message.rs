// Verus unit `message`: src/message.rs under contract (serves C07 and every caller of ZmqMessage)
#![feature(allocator_api)]
#![allow(unused_imports, dead_code, unused_variables, unused_mut)]
use vstd::prelude::*;
use bytes::{Buf, BufMut, Bytes, BytesMut};
use std::collections::vec_deque::{Iter, VecDeque};
use std::convert::{From, TryFrom};
use vstd::std_specs::iter::IteratorSpec;
verus! {
global size_of usize == 8;
//@@ include prelude/bytes_specs.rs
//@@ include prelude/std_specs.rs
//@@ include prelude/message_items.rs

// ---- constructors: a ZmqMessage has at least one frame (the public constructors refuse to build an empty one) ----
//@ item src/message.rs :: struct ZmqEmptyMessageError
//@ end
pub broadcast axiom fn axiom_vecdeque_from_vec_obeys<T>()
    ensures #[trigger] <VecDeque<T> as vstd::std_specs::convert::FromSpec<Vec<T>>>::obeys_from_spec();
pub broadcast axiom fn axiom_vecdeque_from_vec<T>(v: Vec<T>)
    ensures (#[trigger] <VecDeque<T> as vstd::std_specs::convert::FromSpec<Vec<T>>>::from_spec(v))@ == v@;

impl vstd::std_specs::convert::TryFromSpecImpl<Vec<Bytes>> for ZmqMessage {
    open spec fn obeys_try_from_spec() -> bool { false }
    open spec fn try_from_spec(v: Vec<Bytes>) -> Result<Self, ZmqEmptyMessageError> { arbitrary() }
}
//@ item src/message.rs :: impl TryFrom<Vec<Bytes>> for ZmqMessage
//@ fn try_from
//@ ret r
//@ spec
//@|        ensures
//@|            v@.len() == 0 ==> r is Err,
//@|            v@.len() > 0 ==> r is Ok && r->Ok_0.fr() == v@,
//@ hint start
//@|        broadcast use axiom_vecdeque_from_vec_obeys, axiom_vecdeque_from_vec;
//@ end
impl vstd::std_specs::convert::TryFromSpecImpl<VecDeque<Bytes>> for ZmqMessage {
    open spec fn obeys_try_from_spec() -> bool { false }
    open spec fn try_from_spec(v: VecDeque<Bytes>) -> Result<Self, ZmqEmptyMessageError> { arbitrary() }
}
//@ item src/message.rs :: impl TryFrom<VecDeque<Bytes>> for ZmqMessage
//@ fn try_from
//@ ret r
//@ spec
//@|        ensures
//@|            v@.len() == 0 ==> r is Err,
//@|            v@.len() > 0 ==> r is Ok && r->Ok_0.fr() == v@,
//@ end
impl vstd::std_specs::convert::FromSpecImpl<Bytes> for ZmqMessage {
    open spec fn obeys_from_spec() -> bool { false }
    open spec fn from_spec(v: Bytes) -> Self { arbitrary() }
}
//@ item src/message.rs :: impl From<Bytes> for ZmqMessage
//@ fn from
//@ ret r
//@ spec
//@|        ensures r.fr() == seq![b],
//@ hint start
//@|        broadcast use axiom_vecdeque_from_vec_obeys, axiom_vecdeque_from_vec;
//@ end

} // verus!
fn main() {}
