// Verus unit `sub`: what a SUB socket tells its peers about its subscriptions (src/sub.rs; serves C13).
// Sequential scope: per-call contracts over the owned peer-table / topic-set model, plus the history invariant
// `agrees` ("every registered peer has been told exactly the socket's current topic set") preserved by every call.
#![feature(allocator_api)]
#![allow(unused_imports, dead_code, unused_variables, unused_mut, unused_parens)]
use vstd::prelude::*;
use bytes::{Buf, BufMut, Bytes, BytesMut};
use std::collections::vec_deque::{Iter, VecDeque};
use std::collections::{HashMap, HashSet};
use std::convert::{From, TryFrom, TryInto};
use vstd::std_specs::iter::IteratorSpec;
use std::io::ErrorKind;
use vstd::std_specs::hash::*;
verus! {
global size_of usize == 8;
//@@ define STUB_CSM
//@@ include prelude/bytes_specs.rs
//@@ include prelude/std_specs.rs
//@@ include prelude/message_items.rs
//@@ include prelude/codec_types.rs
//@@ include prelude/core_types.rs
//@@ include prelude/socket_standins.rs
//@@ include prelude/recv_specs.rs

//@ item src/lib.rs :: enum SocketType
//@ end
//@ item src/lib.rs :: struct SocketOptions
//@ end
//@ item src/codec/framed.rs :: struct FramedIo
//@ end
impl FramedIo {
//@ item src/codec/framed.rs :: impl FramedIo / fn into_parts
//@ ret r
//@ spec
//@|        ensures r.0 == self.read_half, r.1 == self.write_half,
//@ end
}
//@ item src/backend.rs :: struct Peer
//@ end
//@ item src/sub.rs :: enum SubBackendMsgType
//@ end
//@ item src/sub.rs :: struct SubSocketBackend
//@ end
//@ item src/sub.rs :: struct SubSocket
//@ end

// ---- the topic set -------------------------------------------------------------------------------------------
// The socket keeps a std `HashSet<String>`; vstd's HashSet specifications are used for `insert` / `remove`.
// ASSUMED (axioms below; vstd has key-model axioms for integer and Box keys only): String is a well-behaved hash key,
// two Strings with the same characters are equal, `&str` borrows a String by content, the octets of a str are the
// UTF-8 encoding of its characters, and that encoding is injective.
pub uninterp spec fn utf8(s: Seq<char>) -> Seq<u8>;
pub uninterp spec fn string_of(v: Seq<char>) -> String;
pub mod string_set_axioms {
use super::*;
pub broadcast axiom fn axiom_string_obeys_key_model()
    ensures #[trigger] obeys_key_model::<String>();
pub broadcast axiom fn axiom_string_eq_by_view(a: String, b: String)
    ensures #[trigger] a@ == #[trigger] b@ ==> a == b;
pub broadcast axiom fn axiom_string_of(v: Seq<char>)
    ensures (#[trigger] string_of(v))@ == v;
pub broadcast axiom fn axiom_str_bytes_utf8(s: &str)
    ensures #[trigger] str_bytes(s) == utf8(s@);
pub broadcast axiom fn axiom_utf8_injective(a: Seq<char>, b: Seq<char>)
    ensures #[trigger] utf8(a) == #[trigger] utf8(b) ==> a == b;
pub broadcast axiom fn axiom_str_set_contains(s: Set<String>, k: &str)
    ensures #[trigger] set_contains_borrowed_key::<String, str>(s, k) == s.contains(string_of(k@));
pub broadcast axiom fn axiom_str_set_differ(s0: Set<String>, s1: Set<String>, k: &str)
    ensures #[trigger] sets_differ_by_borrowed_key::<String, str>(s0, s1, k) == (s1 == s0.remove(string_of(k@)));
pub broadcast group group_string_set {
    axiom_string_obeys_key_model, axiom_string_eq_by_view, axiom_string_of, axiom_str_bytes_utf8, axiom_utf8_injective,
    axiom_str_set_contains, axiom_str_set_differ,
}
}
/// the socket's subscription set as a set of octet strings (the UTF-8 octets of each String)
pub open spec fn topics_of_set(s: Set<String>) -> Set<Seq<u8>> {
    s.map(|x: String| utf8(x@))
}
pub open spec fn topic_set(h: HashSet<String>) -> Set<Seq<u8>> { topics_of_set(h@) }
pub broadcast proof fn lemma_topics_insert(s: Set<String>, k: String)
    ensures #[trigger] topics_of_set(s.insert(k)) == topics_of_set(s).insert(utf8(k@)),
{
    assert forall|b: Seq<u8>| topics_of_set(s.insert(k)).contains(b) <==> topics_of_set(s).insert(utf8(k@)).contains(b) by {
        if topics_of_set(s.insert(k)).contains(b) {
            let x = choose|x: String| #[trigger] s.insert(k).contains(x) && utf8(x@) == b;
            if x != k { assert(s.contains(x)); }
        }
        if topics_of_set(s).contains(b) {
            let x = choose|x: String| #[trigger] s.contains(x) && utf8(x@) == b;
            assert(s.insert(k).contains(x));
        }
        if b == utf8(k@) { assert(s.insert(k).contains(k)); }
    }
    assert(topics_of_set(s.insert(k)) =~= topics_of_set(s).insert(utf8(k@)));
}
pub broadcast proof fn lemma_topics_remove(s: Set<String>, k: String)
    ensures #[trigger] topics_of_set(s.remove(k)) == topics_of_set(s).remove(utf8(k@)),
{
    broadcast use string_set_axioms::group_string_set;
    assert forall|b: Seq<u8>| topics_of_set(s.remove(k)).contains(b) <==> topics_of_set(s).remove(utf8(k@)).contains(b) by {
        if topics_of_set(s.remove(k)).contains(b) {
            let x = choose|x: String| #[trigger] s.remove(k).contains(x) && utf8(x@) == b;
            assert(s.contains(x));
            if b == utf8(k@) { assert(x@ == k@); assert(x == k); }
        }
        if topics_of_set(s).contains(b) && b != utf8(k@) {
            let x = choose|x: String| #[trigger] s.contains(x) && utf8(x@) == b;
            assert(s.remove(k).contains(x));
        }
    }
    assert(topics_of_set(s.remove(k)) =~= topics_of_set(s).remove(utf8(k@)));
}
pub broadcast proof fn lemma_topics_member(s: Set<String>, k: String)
    ensures #[trigger] topics_of_set(s).contains(utf8(k@)) == s.contains(k),
{
    broadcast use string_set_axioms::group_string_set;
    if topics_of_set(s).contains(utf8(k@)) {
        let x = choose|x: String| #[trigger] s.contains(x) && utf8(x@) == utf8(k@);
        assert(x@ == k@); assert(x == k);
    }
    if s.contains(k) { assert(topics_of_set(s).contains(utf8(k@))); }
}
pub broadcast group group_topics { lemma_topics_insert, lemma_topics_remove, lemma_topics_member }

// ---- RFC 29 subscription messages and what a connection has been told ---------------------------------------------
pub open spec fn tag_of(ty: SubBackendMsgType) -> u8 { if ty is SUBSCRIBE { 1u8 } else { 0u8 } }
/// the one-frame message `tag topic` (0x01 = SUBSCRIBE, 0x00 = CANCEL)
pub open spec fn is_sub_msg(m: Message, tag: u8, t: Seq<u8>) -> bool {
    m is Message && m->Message_0.fr().len() == 1 && b_view(&m->Message_0.fr()[0]) == seq![tag] + t
}
/// RFC 29 counting: how often the connection has been told to subscribe to `t`, minus the cancels
pub open spec fn told(log: Seq<Message>, t: Seq<u8>) -> int
    decreases log.len()
{
    if log.len() == 0 { 0 }
    else { told(log.drop_last(), t) + (if is_sub_msg(log.last(), 1u8, t) { 1int } else if is_sub_msg(log.last(), 0u8, t) { -1int } else { 0int }) }
}
pub proof fn lemma_tagged_injective(tag: u8, a: Seq<u8>, b: Seq<u8>)
    requires seq![tag] + a == seq![tag] + b,
    ensures a == b,
{
    assert((seq![tag] + a).subrange(1, (seq![tag] + a).len() as int) =~= a);
    assert((seq![tag] + b).subrange(1, (seq![tag] + b).len() as int) =~= b);
}
pub proof fn lemma_tags_differ(a: Seq<u8>, b: Seq<u8>)
    ensures seq![1u8] + a != seq![0u8] + b,
{
    assert((seq![1u8] + a)[0] == 1u8);
    assert((seq![0u8] + b)[0] == 0u8);
}
/// one more announcement `tag t` on the wire changes the count for `t` by +-1 and no other count
pub proof fn lemma_told_push(log: Seq<Message>, m: Message, tag: u8, t: Seq<u8>, u: Seq<u8>)
    requires is_sub_msg(m, tag, t), tag == 0 || tag == 1,
    ensures told(log.push(m), u) == told(log, u) + (if u == t { if tag == 1 { 1int } else { -1int } } else { 0int }),
{
    assert(log.push(m).drop_last() =~= log);
    assert(log.push(m).last() == m);
    if is_sub_msg(m, 1u8, u) {
        if tag == 1 { lemma_tagged_injective(1u8, t, u); } else { lemma_tags_differ(u, t); }
    }
    if is_sub_msg(m, 0u8, u) {
        if tag == 0 { lemma_tagged_injective(0u8, t, u); } else { lemma_tags_differ(t, u); }
    }
}
/// the connection `w1` is `w0` after one message `tag t` has been put on the wire (and nothing is left buffered)
pub open spec fn announced(w0: ZmqFramedWrite, w1: ZmqFramedWrite, tag: u8, t: Seq<u8>) -> bool {
    exists|m: Message| is_sub_msg(m, tag, t) && #[trigger] flushed_one(w0, w1, m)
}
/// which read half the fair queue holds for which identity
pub closed spec fn squeued(b: SubSocketBackend) -> Option<Map<PeerIdentity, ZmqFramedRead>> {
    match b.fair_queue_inner { Some(m) => Some(m.inner.streams@), None => None }
}
pub closed spec fn subs_of(b: SubSocketBackend) -> Set<Seq<u8>> { topic_set(b.subs.inner) }
/// C13, at a quiescent moment: nothing is left buffered for any registered peer, and each has been told exactly the
/// socket's current topic set (count 1 for a topic in the set, 0 for any other)
pub closed spec fn agrees(b: SubSocketBackend) -> bool {
    forall|k: PeerIdentity| #[trigger] b.peers@.contains_key(k) ==> told_exactly(b.peers@[k].send_queue, subs_of(b))
}
pub open spec fn told_exactly(w: ZmqFramedWrite, set: Set<Seq<u8>>) -> bool {
    w.pending@.len() == 0 && forall|u: Seq<u8>| #[trigger] told(w.sent@, u) == (if set.contains(u) { 1int } else { 0int })
}
pub broadcast proof fn lemma_announced_told(w0: ZmqFramedWrite, w1: ZmqFramedWrite, tag: u8, t: Seq<u8>, set: Set<Seq<u8>>)
    requires
        #[trigger] told_exactly(w0, set), #[trigger] announced(w0, w1, tag, t),
        tag == 1 ==> !set.contains(t), tag == 0 ==> set.contains(t), tag == 0 || tag == 1,
    ensures
        told_exactly(w1, if tag == 1 { set.insert(t) } else { set.remove(t) }),
{
    let m = choose|m: Message| is_sub_msg(m, tag, t) && #[trigger] flushed_one(w0, w1, m);
    assert(w0.pending@ =~= Seq::<Message>::empty());
    assert(w1.sent@ =~= w0.sent@.push(m));
    assert forall|u: Seq<u8>| #[trigger] told(w1.sent@, u) == (if (if tag == 1 { set.insert(t) } else { set.remove(t) }).contains(u) { 1int } else { 0int }) by {
        lemma_told_push(w0.sent@, m, tag, t, u);
    }
}

impl SubSocketBackend {
    // stand-in for `SocketBackend::monitor(&self) -> &Mutex<..>` (shared borrow of interior-mutable data -> &mut, D7)
    fn monitor(&mut self) -> (r: &mut Mutex<Option<mpsc::Sender<SocketEvent>>>)
        ensures *r == old(self).socket_monitor, final(self).socket_monitor == *final(r),
            final(self).peers == old(self).peers, final(self).subs == old(self).subs, final(self).round_robin == old(self).round_robin,
            final(self).fair_queue_inner == old(self).fair_queue_inner, final(self).socket_type == old(self).socket_type,
    { &mut self.socket_monitor }
// a failed peer is forgotten - that peer and no other (the others must keep hearing about subscription changes)
//@ item src/sub.rs :: impl MultiPeerBackend for SubSocketBackend / fn peer_disconnected
//@ name SubSocketBackend::peer_disconnected
//@ inherent
//@ receiver-mut
//@ mutref? "&self.fair_queue_inner"
//@ spec
//@|        ensures
//@|            final(self).peers@ == old(self).peers@.remove(*peer_id),
//@|            subs_of(*final(self)) == subs_of(*old(self)),
//@|            agrees(*old(self)) ==> agrees(*final(self)),
//@|            // C16: the queued read half is dropped as well
//@|            squeued(*old(self)) is None ==> squeued(*final(self)) is None,
//@|            squeued(*old(self)) is Some ==> squeued(*final(self)) == Some(squeued(*old(self))->Some_0.remove(*peer_id)),
//@ end
// C01 / C04: the socket announces its own type
//@ item src/sub.rs :: impl SubSocketBackend / fn with_options
//@ ret r
//@ spec
//@|        ensures r.socket_type == socket_type, r.peers@ == Map::<PeerIdentity, Peer>::empty(),
//@ end
//@ item src/sub.rs :: impl SocketBackend for SubSocketBackend / fn socket_type
//@ name SubSocketBackend::socket_type
//@ inherent
//@ ret r
//@ spec
//@|        ensures r == self.socket_type,
//@ end
// C13, late joiners: the new peer is sent the whole current set BEFORE it is registered
//@ item src/sub.rs :: impl MultiPeerBackend for SubSocketBackend / fn peer_connected
//@ name SubSocketBackend::peer_connected
//@ inherent
//@ receiver-mut
//@ mutref "&self.fair_queue_inner"
//@ subst-re "self\s*\.subs\s*\.lock\(\)\s*\.iter\(\)\s*\.map\(\|x\| SubSocketBackend::create_subs_message\(x, SubBackendMsgType::SUBSCRIBE\)\)\s*\.collect\(\)"
//@|    assumed_snapshot(&self.subs)
//@ subst-re "(?<=\.await)\s*\.unwrap\(\)"
//@|    .or_panic()
//@ spec
//@|        requires
//@|            // a fresh connection: the handshake has put no subscription message on it
//@|            told_exactly(io.write_half, Set::<Seq<u8>>::empty()),
//@|        ensures
//@|            final(self).peers@.dom() =~= old(self).peers@.dom().insert(*peer_id),
//@|            forall|k: PeerIdentity| k != *peer_id && old(self).peers@.contains_key(k) ==> #[trigger] final(self).peers@[k] == old(self).peers@[k],
//@|            subs_of(*final(self)) == subs_of(*old(self)),
//@|            // the peer that is registered has been told exactly the current set
//@|            told_exactly(final(self).peers@[*peer_id].send_queue, subs_of(*old(self))),
//@|            agrees(*old(self)) ==> agrees(*final(self)),
//@ hint before "for message in subs_msgs"
//@|        let ghost order = snapshot_order(self.subs.inner);
//@|        let ghost msgs0 = subs_msgs@;
//@|        proof { assert(order.subrange(0, 0) =~= Seq::<Seq<u8>>::empty()); }
//@ loop 1 it
//@|            invariant
//@|                it.seq() =~= msgs0, 0 <= it.index() <= msgs0.len(), msgs0.len() == order.len(), order.no_duplicates(),
//@|                forall|i: int| 0 <= i < msgs0.len() ==> (#[trigger] msgs0[i]).fr().len() == 1 && b_view(&msgs0[i].fr()[0]) == seq![1u8] + order[i],
//@|                told_prefix(send_queue, order, it.index() as int),
//@ loopbody 1
//@|            let ghost w0 = send_queue;
//@|            let ghost mg = message;
//@|            proof { assert(it.seq()[it.index() as int] == message); assert(mg == msgs0[it.index() as int]); }
//@ loopend 1
//@|            proof {
//@|                assert(is_sub_msg(Message::Message(mg), 1u8, order[it.index() as int]));
//@|                assert(send_queue.sent@ =~= w0.sent@ + w0.pending@.push(Message::Message(mg)));
//@|                assert(flushed_one(w0, send_queue, Message::Message(mg)));
//@|                lemma_told_prefix_step(w0, send_queue, Message::Message(mg), order, it.index() as int);
//@|            }
//@ afterloop 1
//@|        proof { lemma_told_prefix_all(send_queue, order, topic_set(self.subs.inner)); }
//@ end
// verified in unit pubsub (same contract text); here only its contract
//@ item src/sub.rs :: impl SubSocketBackend / fn create_subs_message
//@ stub-if STUB_CSM
//@ ret r
//@ spec
//@|        ensures
//@|            r.fr().len() == 1,
//@|            b_view(&r.fr()[0]) == seq![if msg_type is SUBSCRIBE { 1u8 } else { 0u8 }] + str_bytes(subscription),
//@ end
}

/// D5 (expression): `.unwrap()` on the result of sending the snapshot.  In Rust the call returns only if the result is
/// Ok and panics otherwise; this stand-in has exactly that meaning and NO panic-freedom obligation (that the accept /
/// connect task panics when the new peer's connection fails right after READY is recorded in DESIGN section 5; it is
/// not part of C13).
pub trait OrPanic<T>: Sized {
    spec fn ok_value(self) -> Option<T>;
    fn or_panic(self) -> (r: T)
        ensures self.ok_value() == Some(r);
}
impl<T, E> OrPanic<T> for Result<T, E> {
    open spec fn ok_value(self) -> Option<T> { match self { Ok(v) => Some(v), Err(_) => None } }
    #[verifier::external_body]
    fn or_panic(self) -> (r: T) { match self { Ok(v) => v, Err(_) => panic!() } }
}
/// the order in which a traversal of the topic set yields the topics (std's choice; ghost)
pub uninterp spec fn snapshot_order(h: HashSet<String>) -> Seq<Seq<u8>>;
/// D5 (expression): `self.subs.lock().iter().map(|x| SubSocketBackend::create_subs_message(x, SUBSCRIBE)).collect()`
/// (HashSet iteration through a lock guard, closure, collect).  ASSUMED: one SUBSCRIBE message (create_subs_message's
/// contract) per topic of the set, each topic once, in an order of std's choosing; the set is not changed.
#[verifier::external_body]
fn assumed_snapshot(subs: &Mutex<HashSet<String>>) -> (r: Vec<ZmqMessage>)
    ensures
        r@.len() == snapshot_order(subs.inner).len(),
        forall|i: int| 0 <= i < r@.len() ==> (#[trigger] r@[i]).fr().len() == 1 && b_view(&r@[i].fr()[0]) == seq![1u8] + snapshot_order(subs.inner)[i],
        snapshot_order(subs.inner).no_duplicates(),
        forall|t: Seq<u8>| snapshot_order(subs.inner).contains(t) <==> topic_set(subs.inner).contains(t),
{ unimplemented!() }
/// the connection has been told exactly the first `n` topics of `order` (and nothing is buffered)
pub open spec fn told_prefix(w: ZmqFramedWrite, order: Seq<Seq<u8>>, n: int) -> bool {
    w.pending@.len() == 0 && forall|u: Seq<u8>| #[trigger] told(w.sent@, u) == (if order.subrange(0, n).contains(u) { 1int } else { 0int })
}
pub proof fn lemma_told_prefix_step(w0: ZmqFramedWrite, w1: ZmqFramedWrite, m: Message, order: Seq<Seq<u8>>, n: int)
    requires
        0 <= n < order.len(), order.no_duplicates(), told_prefix(w0, order, n),
        is_sub_msg(m, 1u8, order[n]), flushed_one(w0, w1, m),
    ensures
        told_prefix(w1, order, n + 1),
{
    assert(w0.pending@ =~= Seq::<Message>::empty());
    assert(w1.sent@ =~= w0.sent@.push(m));
    let sa = order.subrange(0, n);
    let sb = order.subrange(0, n + 1);
    assert(sb =~= sa.push(order[n]));
    assert forall|u: Seq<u8>| #[trigger] told(w1.sent@, u) == (if sb.contains(u) { 1int } else { 0int }) by {
        lemma_told_push(w0.sent@, m, 1u8, order[n], u);
        if u == order[n] {
            assert(sb[n] == u);
            if sa.contains(u) {
                let i = choose|i: int| 0 <= i < sa.len() && sa[i] == u;
                assert(order[i] == order[n]);
            }
        } else {
            if sb.contains(u) {
                let i = choose|i: int| 0 <= i < sb.len() && sb[i] == u;
                assert(sa[i] == u);
            }
            if sa.contains(u) {
                let i = choose|i: int| 0 <= i < sa.len() && sa[i] == u;
                assert(sb[i] == u);
            }
        }
    }
}
pub proof fn lemma_told_prefix_all(w: ZmqFramedWrite, order: Seq<Seq<u8>>, set: Set<Seq<u8>>)
    requires told_prefix(w, order, order.len() as int), forall|t: Seq<u8>| order.contains(t) <==> set.contains(t),
    ensures told_exactly(w, set),
{
    assert(order.subrange(0, order.len() as int) =~= order);
}

impl SubSocket {
//@ item src/sub.rs :: impl Socket for SubSocket / fn with_options
//@ name SubSocket::with_options
//@ inherent
//@ ret r
//@ spec
//@|        ensures r.backend.socket_type is SUB, r.backend.peers@ == Map::<PeerIdentity, Peer>::empty(),
//@|            // the invariant of C13 holds for a new socket (no peers yet)
//@|            agrees(*r.backend),
//@ end
}
/// one peer before / after `process_subs(tag t)`: exactly one write was attempted on its connection, and either the
/// announcement is on the wire or the connection failed (nothing new on the wire)
pub closed spec fn told_or_failed(p0: Peer, p1: Peer, tag: u8, t: Seq<u8>) -> bool {
    &&& p1.send_queue.tried@ == p0.send_queue.tried@ + 1
    &&& announced(p0.send_queue, p1.send_queue, tag, t) || p1.send_queue.sent@ == p0.send_queue.sent@
}

impl SubSocket {
//@ item src/sub.rs :: impl SubSocket / fn process_subs
// two forms are read: the repaired one (first error kept in `result`, traversal carries on) and the defective one
// (`?` inside the traversal: F7) - so that a returning F7 is reported; any other restructuring is undecided
//@ shapes "let mut result" ".await?;"
//@ ret r
//@ spec
//@|        ensures
//@|            final(self).backend.peers@.dom() =~= old(self).backend.peers@.dom(),
//@|            final(self).backend.subs == old(self).backend.subs,
//@|            // C13: EVERY registered peer is attempted, whatever happens on the other connections
//@|            forall|k: PeerIdentity| old(self).backend.peers@.contains_key(k) ==>
//@|                told_or_failed(old(self).backend.peers@[k], #[trigger] final(self).backend.peers@[k], tag_of(msg_type), str_bytes(subscription)),
//@|            // and when the call reports success every one of them has the announcement on the wire
//@|            r is Ok ==> forall|k: PeerIdentity| old(self).backend.peers@.contains_key(k) ==>
//@|                announced(old(self).backend.peers@[k].send_queue, (#[trigger] final(self).backend.peers@[k]).send_queue, tag_of(msg_type), str_bytes(subscription)),
//@ hint start
//@|        let ghost t0 = self.backend.peers@;
//@|        let ghost tag = tag_of(msg_type);
//@|        let ghost tb = str_bytes(subscription);
//@ hint before "while let Some(mut peer) = iter"
//@|        // the table as the traversal will leave it (prophecy of the borrow the entries hold)
//@|        let ghost tfv = if iter is Some { final(iter->Some_0.map)@ } else { t0 };
//@ loop 1
//@|            invariant
//@|                iter matches Some(e) ==> e.wf() && final(e.map)@ == tfv && e.map@.dom() =~= t0.dom()
//@|                    && (forall|j: int| e.idx@ <= j < e.order@.len() ==> e.map@[e.order@[j]] == t0[e.order@[j]])
//@|                    && (forall|j: int| 0 <= j < e.idx@ ==> told_or_failed(t0[e.order@[j]], #[trigger] e.map@[e.order@[j]], tag, tb))
//@|?![.await?;]                    && (result is Ok ==> forall|j: int| 0 <= j < e.idx@ ==> announced(t0[e.order@[j]].send_queue, (#[trigger] e.map@[e.order@[j]]).send_queue, tag, tb)),
//@|?[.await?;]                    && (forall|j: int| 0 <= j < e.idx@ ==> announced(t0[e.order@[j]].send_queue, (#[trigger] e.map@[e.order@[j]]).send_queue, tag, tb)),
//@|                iter is None ==> tfv.dom() =~= t0.dom()
//@|                    && (forall|k: PeerIdentity| t0.contains_key(k) ==> told_or_failed(t0[k], #[trigger] tfv[k], tag, tb))
//@|?![.await?;]                    && (result is Ok ==> forall|k: PeerIdentity| t0.contains_key(k) ==> announced(t0[k].send_queue, (#[trigger] tfv[k]).send_queue, tag, tb)),
//@|?[.await?;]                    && (forall|k: PeerIdentity| t0.contains_key(k) ==> announced(t0[k].send_queue, (#[trigger] tfv[k]).send_queue, tag, tb)),
//@|                message.fr().len() == 1, b_view(&message.fr()[0]) == seq![tag] + tb,
//@|                tag == tag_of(msg_type), tb == str_bytes(subscription), t0 == old(self).backend.peers@,
//@|            ensures
//@|                iter is None,
//@|            decreases (if iter is Some { iter->Some_0.order@.len() - iter->Some_0.idx@ } else { 0 })
//@ loopbody 1
//@|            let ghost e0 = peer;
//@|            let ghost p0 = peer.val();
//@|            proof { assert(e0.order@.contains(e0.k())); }
//@ hint before "iter = peer.next_async().await;"
//@|            proof {
//@|                assert forall|j: int| 0 <= j < e0.order@.len() && j != e0.idx@ implies #[trigger] peer.map@[e0.order@[j]] == e0.map@[e0.order@[j]] by {
//@|                    assert(e0.order@[j] != e0.k());
//@|                }
//@|                assert(t0[e0.k()] == p0);
//@|                if peer.val().send_queue.sent@ != p0.send_queue.sent@ || peer.val().send_queue.pending@.len() == 0 && peer.val().send_queue.sent@.len() > p0.send_queue.sent@.len() {
//@|                    let m = peer.val().send_queue.sent@.last();
//@|                    if peer.val().send_queue.sent@ =~= p0.send_queue.sent@ + p0.send_queue.pending@.push(m) && peer.val().send_queue.pending@.len() == 0 {
//@|                        assert(flushed_one(p0.send_queue, peer.val().send_queue, m));
//@|                    }
//@|                }
//@|            }
//@|            let ghost e1 = peer;
//@ hint after "iter = peer.next_async().await;"
//@|            proof {
//@|                assert forall|j: int| 0 <= j <= e0.idx@ implies told_or_failed(t0[e0.order@[j]], #[trigger] e1.map@[e0.order@[j]], tag, tb) by {
//@|                    if j == e0.idx@ { assert(e1.map@[e0.order@[j]] == e1.val()); } else { assert(e1.map@[e0.order@[j]] == e0.map@[e0.order@[j]]); }
//@|                }
//@|?[.await?;]                assert forall|j: int| 0 <= j <= e0.idx@ implies announced(t0[e0.order@[j]].send_queue, (#[trigger] e1.map@[e0.order@[j]]).send_queue, tag, tb) by {
//@|?![.await?;]                assert forall|j: int| 0 <= j <= e0.idx@ && result is Ok implies announced(t0[e0.order@[j]].send_queue, (#[trigger] e1.map@[e0.order@[j]]).send_queue, tag, tb) by {
//@|                    if j == e0.idx@ { assert(e1.map@[e0.order@[j]] == e1.val()); } else { assert(e1.map@[e0.order@[j]] == e0.map@[e0.order@[j]]); }
//@|                }
//@|                assert forall|j: int| e0.idx@ < j < e0.order@.len() implies #[trigger] e1.map@[e0.order@[j]] == t0[e0.order@[j]] by {
//@|                    assert(e1.map@[e0.order@[j]] == e0.map@[e0.order@[j]]);
//@|                }
//@|                if iter is None {
//@|?[.await?;]                    assert forall|k: PeerIdentity| t0.contains_key(k) implies told_or_failed(t0[k], #[trigger] tfv[k], tag, tb)
//@|?[.await?;]                        && announced(t0[k].send_queue, tfv[k].send_queue, tag, tb) by {
//@|?![.await?;]                    assert forall|k: PeerIdentity| t0.contains_key(k) implies told_or_failed(t0[k], #[trigger] tfv[k], tag, tb)
//@|?![.await?;]                        && (result is Ok ==> announced(t0[k].send_queue, tfv[k].send_queue, tag, tb)) by {
//@|                        assert(e1.order@.contains(k));
//@|                        let j = choose|j: int| 0 <= j < e1.order@.len() && e1.order@[j] == k;
//@|                        assert(e1.map@[e1.order@[j]] == tfv[k]);
//@|                    }
//@|                }
//@|            }
//@ afterloop 1
//@|        proof { assert(self.backend.peers@ == tfv); }
//@ end
}

impl SubSocket {
//@ item src/sub.rs :: impl SubSocket / fn subscribe
//@ drop-pub
//@ ret r
//@ spec
//@|        ensures
//@|            subs_of(*final(self).backend) == subs_of(*old(self).backend).insert(str_bytes(subscription)),
//@|            final(self).backend.peers@.dom() =~= old(self).backend.peers@.dom(),
//@|            // C13: if every registered peer had been told exactly the old set, and the call reports success,
//@|            // every registered peer has been told exactly the new set
//@|            agrees(*old(self).backend) && r is Ok ==> agrees(*final(self).backend),
//@|            // a topic that is new to the set is announced to EVERY registered peer, whatever happens on the others
//@|            !subs_of(*old(self).backend).contains(str_bytes(subscription)) ==> forall|k: PeerIdentity| old(self).backend.peers@.contains_key(k) ==>
//@|                told_or_failed(old(self).backend.peers@[k], #[trigger] final(self).backend.peers@[k], 1u8, str_bytes(subscription)),
//@ hint start
//@|        broadcast use lemma_announced_told;
//@|        broadcast use string_set_axioms::group_string_set;
//@|        broadcast use group_topics;
//@|        broadcast use vstd::std_specs::hash::group_hash_axioms;
//@ end
//@ item src/sub.rs :: impl SubSocket / fn unsubscribe
//@ drop-pub
//@ ret r
//@ spec
//@|        ensures
//@|            subs_of(*final(self).backend) == subs_of(*old(self).backend).remove(str_bytes(subscription)),
//@|            final(self).backend.peers@.dom() =~= old(self).backend.peers@.dom(),
//@|            agrees(*old(self).backend) && r is Ok ==> agrees(*final(self).backend),
//@|            subs_of(*old(self).backend).contains(str_bytes(subscription)) ==> forall|k: PeerIdentity| old(self).backend.peers@.contains_key(k) ==>
//@|                told_or_failed(old(self).backend.peers@[k], #[trigger] final(self).backend.peers@[k], 0u8, str_bytes(subscription)),
//@ hint start
//@|        broadcast use lemma_announced_told;
//@|        broadcast use string_set_axioms::group_string_set;
//@|        broadcast use group_topics;
//@|        broadcast use vstd::std_specs::hash::group_hash_axioms;
//@ end
}

impl SubSocket {
// C16 (and C14's shape): recv returns the first message item verbatim; a peer whose failure it reports is forgotten
// completely (table entry and queued read half)
//@ item src/sub.rs :: impl SocketRecv for SubSocket / fn recv
//@ name SubSocket::recv
//@ inherent
//@ attr
//@|    #[verifier::loop_isolation(false)]
//@|    #[verifier::exec_allows_no_decreases_clause]
//@ ret r
//@ spec
//@|        ensures plain_received(old(self).fair_queue.log@, final(self).fair_queue.log@, r),
//@|            failed_item(final(self).fair_queue.log@.last()) ==> final(self).backend.peers@ == old(self).backend.peers@.remove(final(self).fair_queue.log@.last()->Some_0.0)
//@|                && (squeued(*old(self).backend) is Some ==> squeued(*final(self).backend) == Some(squeued(*old(self).backend)->Some_0.remove(final(self).fair_queue.log@.last()->Some_0.0))),
//@|            !failed_item(final(self).fair_queue.log@.last()) ==> final(self).backend.peers@ == old(self).backend.peers@ && squeued(*final(self).backend) == squeued(*old(self).backend),
//@ loop 1
//@|            invariant
//@|                self.fair_queue.log@.len() >= old(self).fair_queue.log@.len(),
//@|                self.fair_queue.log@.subrange(0, old(self).fair_queue.log@.len() as int) =~= old(self).fair_queue.log@,
//@|                forall|i: int| old(self).fair_queue.log@.len() <= i < self.fair_queue.log@.len() ==> skipped_item(#[trigger] self.fair_queue.log@[i]),
//@|                self.backend.peers@ == old(self).backend.peers@, squeued(*self.backend) == squeued(*old(self).backend),
//@ end
}

} // verus!
// `Result<_, CodecError>::unwrap` wants E: Debug; the derive is dropped by D3 (formatting is outside the verified subset)
impl std::fmt::Debug for CodecError {
    fn fmt(&self, _f: &mut std::fmt::Formatter<'_>) -> std::fmt::Result { Ok(()) }
}
pub struct Uuid([u8; 16]);
impl Uuid {
    pub fn new_v4() -> Self { Uuid([0; 16]) }
    pub fn as_bytes(&self) -> &[u8; 16] { &self.0 }
}
fn main() {}
