// ===================================================================================
// Stand-in for `std::collections::vec_deque::Iter` + `Iterator::enumerate` (ASSUMED model of std):
// Verus has no specification for `Iterator::enumerate` and none can be added for a provided trait method
// of a foreign trait, so in units that verify an `iter().enumerate()` loop the name `Iter` denotes this
// stand-in: `enumerate()` yields (0, &v[0]), (1, &v[1]), ... in order.  `ZmqMessage::iter` is a stub here
// (its real body is verified in unit `message` against std's iterator model).
// ===================================================================================
#[verifier::external_body]
#[verifier::reject_recursive_types(T)]
pub struct Iter<'a, T> { it: std::collections::vec_deque::Iter<'a, T> }
impl<'a, T> Iter<'a, T> {
    /// the elements the iterator will yield, in order
    pub uninterp spec fn elems(&self) -> Seq<&'a T>;
    #[verifier::external_body]
    pub fn enumerate(self) -> (r: Enumerate<'a, T>)
        ensures
            IteratorSpec::remaining(&r) == Seq::new(self.elems().len(), |i: int| (i as usize, self.elems()[i])),
            IteratorSpec::decrease(&r) is Some,
    { unimplemented!() }
}
#[verifier::external_body]
#[verifier::reject_recursive_types(T)]
pub struct Enumerate<'a, T> { it: std::iter::Enumerate<std::collections::vec_deque::Iter<'a, T>> }
impl<'a, T> Iterator for Enumerate<'a, T> {
    type Item = (usize, &'a T);
    #[verifier::external_body]
    fn next(&mut self) -> Option<(usize, &'a T)> { self.it.next() }
}
impl<'a, T> vstd::std_specs::iter::IteratorSpecImpl for Enumerate<'a, T> {
    open spec fn obeys_prophetic_iter_laws(&self) -> bool { true }
    uninterp spec fn remaining(&self) -> Seq<(usize, &'a T)>;
    open spec fn will_return_none(&self) -> bool { true }
    uninterp spec fn decrease(&self) -> Option<nat>;
    uninterp spec fn peek(&self, index: int) -> Option<(usize, &'a T)>;
}
impl ZmqMessage {
    // STUB of src/message.rs `pub fn iter(&self) -> Iter<'_, Bytes>` returning the stand-in iterator
    #[verifier::external_body]
    pub fn iter(&self) -> (r: Iter<'_, Bytes>)
        ensures r.elems() == self.fr().as_ref(),
    { unimplemented!() }
}
