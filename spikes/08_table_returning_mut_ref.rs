use vstd::prelude::*;
verus! {

pub struct Wr { pub ghost sent: Seq<u8>, pub n: u64 }
impl Wr {
    #[verifier::external_body]
    pub fn send(&mut self, x: u8) -> (r: Result<(), ()>)
        ensures r is Ok ==> final(self).sent == old(self).sent.push(x),
                r is Err ==> final(self).sent == old(self).sent,
    { unimplemented!() }
}

#[verifier::external_body]
pub struct Table { x: u8 }
impl Table {
    pub uninterp spec fn view(&self) -> Map<u8, Wr>;
    #[verifier::external_body]
    pub fn get_async(&mut self, k: &u8) -> (r: Option<&mut Wr>)
        ensures
            r is None ==> !old(self).view().contains_key(*k) && final(self).view() == old(self).view(),
            r matches Some(w) ==> old(self).view().contains_key(*k) && *w == old(self).view()[*k]
                && final(self).view() == old(self).view().insert(*k, *final(w)),
    { unimplemented!() }
}

pub struct Sock { pub peers: Box<Table>, pub cur: Option<u8> }

fn route(s: &mut Sock, id: u8, x: u8) -> (r: Result<(), ()>)
    ensures
        r is Ok ==> old(s).peers.view().contains_key(id)
            && final(s).peers.view() == old(s).peers.view().insert(id, Wr { sent: old(s).peers.view()[id].sent.push(x), n: final(s).peers.view()[id].n }),
        !old(s).peers.view().contains_key(id) ==> r is Err && final(s).peers.view() == old(s).peers.view(),
{
    match s.peers.get_async(&id) {
        Some(peer) => {
            peer.send(x)?;
            Ok(())
        }
        None => Err(()),
    }
}

} // verus!
fn main() {}
