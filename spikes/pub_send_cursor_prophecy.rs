use vstd::prelude::*;
use std::ops::{Deref, DerefMut};
verus! {
pub struct Sub { pub subs: Vec<Vec<u8>>, pub q: Q }
#[verifier::external_body]
pub struct Q { _p: u8 }
impl Q {
    pub uninterp spec fn log(&self) -> Seq<u64>;
    #[verifier::external_body]
    pub fn try_send(&mut self, m: u64) -> (r: bool)
        ensures final(self).log() == old(self).log().push(m)
    { unimplemented!() }
}
#[verifier::external_body]
#[verifier::accept_recursive_types(K)]
#[verifier::accept_recursive_types(V)]
pub struct HashMap<K, V> { _t: core::marker::PhantomData<(K, V)> }
pub struct Entry<'a, K, V> { pub map: &'a mut HashMap<K, V>, pub order: Ghost<Seq<K>>, pub idx: Ghost<int> }
pub open spec fn enumerates<K>(order: Seq<K>, dom: Set<K>) -> bool {
    order.no_duplicates() && forall|k: K| dom.contains(k) <==> order.contains(k)
}
impl<K, V> HashMap<K, V> {
    pub uninterp spec fn view(&self) -> Map<K, V>;
    #[verifier::external_body]
    pub fn begin_async(&mut self) -> (r: Option<Entry<'_, K, V>>)
        ensures
            r is None ==> old(self)@.dom() =~= Set::empty() && *final(self) == *old(self),
            r matches Some(e) ==> *e.map == *old(self) && *final(e.map) == *final(self) && e.idx@ == 0 && e.wf(),
    { unimplemented!() }
}
impl<'a, K, V> Entry<'a, K, V> {
    pub open spec fn wf(&self) -> bool {
        enumerates(self.order@, self.map@.dom()) && 0 <= self.idx@ < self.order@.len()
    }
    pub open spec fn k(&self) -> K { self.order@[self.idx@] }
    pub open spec fn val(&self) -> V { self.map@[self.k()] }
    #[verifier::external_body]
    pub fn key(&self) -> (r: &K)
        requires self.wf()
        ensures *r == self.k()
    { unimplemented!() }
    #[verifier::external_body]
    pub fn next_async(self) -> (r: Option<Entry<'a, K, V>>)
        requires self.wf()
        ensures
            r matches Some(n) ==> *n.map == *old(self.map) && *final(n.map) == *final(self.map) && n.order == self.order && n.idx@ == self.idx@ + 1 && n.wf(),
            r is None ==> *final(self.map) == *old(self.map) && self.idx@ + 1 == self.order@.len(),
    { unimplemented!() }
}
impl<'a, K, V> Deref for Entry<'a, K, V> {
    type Target = V;
    #[verifier::external_body]
    fn deref(&self) -> (r: &V)
        ensures self.wf() ==> *r == self.val()
    { unimplemented!() }
}
impl<'a, K, V> DerefMut for Entry<'a, K, V> {
    #[verifier::external_body]
    fn deref_mut(&mut self) -> (r: &mut V)
        ensures old(self).wf() ==> *r == old(self).val() &&
            final(self).order == old(self).order && final(self).idx == old(self).idx &&
            final(self).map@ == old(self).map@.insert(old(self).k(), *final(r)) &&
            *final(final(self).map) == *final(old(self).map),
    { unimplemented!() }
}
pub open spec fn hit(s: Sub, m: u64) -> bool { exists|j: int| 0 <= j < s.subs@.len() && #[trigger] s.subs@[j]@.len() as u64 == m }

fn send(t: &mut HashMap<u64, Sub>, m: u64)
    ensures
        final(t)@.dom() =~= old(t)@.dom(),
        forall|k: u64| old(t)@.contains_key(k) ==> (#[trigger] final(t)@[k]).subs == old(t)@[k].subs
            && final(t)@[k].q.log() == if hit(old(t)@[k], m) { old(t)@[k].q.log().push(m) } else { old(t)@[k].q.log() },
{
    let ghost t0 = t@;
    let ghost tf = *final(t);
    let mut iter = t.begin_async();
    while let Some(mut subscriber) = iter
        invariant
            iter matches Some(e) ==> e.wf() && *final(e.map) == tf && e.map@.dom() =~= t0.dom()
                && (forall|j: int| e.idx@ <= j < e.order@.len() ==> e.map@[e.order@[j]] == t0[e.order@[j]])
                && (forall|j: int| 0 <= j < e.idx@ ==> (#[trigger] e.map@[e.order@[j]]).subs == t0[e.order@[j]].subs
                    && e.map@[e.order@[j]].q.log() == if hit(t0[e.order@[j]], m) { t0[e.order@[j]].q.log().push(m) } else { t0[e.order@[j]].q.log() }),
            iter is None ==> tf@.dom() =~= t0.dom() && (forall|k: u64| t0.contains_key(k) ==> (#[trigger] tf@[k]).subs == t0[k].subs
                    && tf@[k].q.log() == if hit(t0[k], m) { t0[k].q.log().push(m) } else { t0[k].q.log() }),
        ensures
            iter is None,
        decreases (if iter is Some { iter->Some_0.order@.len() - iter->Some_0.idx@ } else { 0 })
    {
        let ghost s0 = subscriber.val();
        let ghost e0 = subscriber;
        proof { assert(e0.order@.contains(e0.k())); }
        for f in it: &subscriber.subs
            invariant_except_break
                forall|j: int| 0 <= j < it.index() ==> (#[trigger] s0.subs@[j])@.len() as u64 != m,
                subscriber.val() == s0,
            invariant
                subscriber.map@ =~= e0.map@.insert(e0.k(), subscriber.val()),
                e0.map@.contains_key(e0.k()),
                it.seq() =~= s0.subs@.as_ref(),
                0 <= it.index() <= s0.subs@.len(),
                e0.wf(), s0 == e0.val(),
                subscriber.wf(), subscriber.order == e0.order, subscriber.idx == e0.idx,
                *final(subscriber.map) == tf,
            ensures
                subscriber.val().subs == s0.subs,
                (hit(s0, m) && subscriber.val().q.log() == s0.q.log().push(m)) || (!hit(s0, m) && subscriber.val().q.log() == s0.q.log()),
        {
            proof { assert(it.seq()[it.index() as int] == f); assert(*f == s0.subs@[it.index() as int]); }
            if f.len() as u64 == m {
                let r = subscriber.q.try_send(m);
                proof { assert(hit(s0, m)); }
                break;
            }
        }
        proof {
            assert(e0.order@.contains(e0.k()));
            assert forall|j: int| 0 <= j < e0.order@.len() && j != e0.idx@ implies #[trigger] subscriber.map@[e0.order@[j]] == e0.map@[e0.order@[j]] by {
                assert(e0.order@[j] != e0.k());
            }
        }
        let ghost e1 = subscriber;
        iter = subscriber.next_async();
        proof {
            if iter is None {
                assert forall|k: u64| t0.contains_key(k) implies (#[trigger] tf@[k]).subs == t0[k].subs
                    && tf@[k].q.log() == if hit(t0[k], m) { t0[k].q.log().push(m) } else { t0[k].q.log() } by {
                    assert(e1.order@.contains(k));
                    let j = choose|j: int| 0 <= j < e1.order@.len() && e1.order@[j] == k;
                    assert(e1.map@[e1.order@[j]] == tf@[k]);
                }
            }
        }
    }
}
}
fn main(){}
