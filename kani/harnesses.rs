// Kani proof harnesses for zmq.rs, compiled INTO the crate through the cfg(kani) hook in
// src/lib.rs (`include!(env!("ZEROMQ_VERIF_KANI"))`), so they exercise the real functions.
// Each harness states its domain; "complete" = loop-free (or fixed-width loops with unwinding
// assertions on) over the full input domain; everything else is a BOUNDED stand-in.
use crate::codec::mechanism::ZmqMechanism;
use crate::codec::{CodecError, Message, ZmqCodec, ZmqCommand, ZmqGreeting};
use crate::{SocketType, ZmqError, ZmqMessage};
use bytes::{Bytes, BytesMut};
use std::convert::TryFrom;

const ALL_TYPES: [SocketType; 12] = [
    SocketType::PAIR, SocketType::PUB, SocketType::SUB, SocketType::REQ, SocketType::REP, SocketType::DEALER,
    SocketType::ROUTER, SocketType::PULL, SocketType::PUSH, SocketType::XPUB, SocketType::XSUB, SocketType::STREAM,
];

fn any_socket_type() -> SocketType {
    let i: usize = kani::any();
    kani::assume(i < 12);
    ALL_TYPES[i]
}

/// RFC 23 + RFC 28..31 socket compatibility ("the peer socket type MUST be one of ..."), written
/// from the RFC text as a symmetric relation; STREAM is not a ZMTP peer type.
fn rfc_compatible(a: SocketType, b: SocketType) -> bool {
    use SocketType::*;
    fn half(a: SocketType, b: SocketType) -> bool {
        matches!(
            (a, b),
            (PAIR, PAIR)
                | (PUB, SUB) | (PUB, XSUB) | (XPUB, SUB) | (XPUB, XSUB)
                | (REQ, REP) | (REQ, ROUTER)
                | (DEALER, REP) | (DEALER, DEALER) | (DEALER, ROUTER)
                | (ROUTER, ROUTER)
                | (PUSH, PULL)
        )
    }
    half(a, b) || half(b, a)
}

/// COMPLETE: all 12 x 12 pairs; totality (no panic), equality with the RFC table, symmetry.
#[kani::proof]
fn compat_table() {
    let a = any_socket_type();
    let b = any_socket_type();
    let r = a.compatible(b);
    assert!(r == rfc_compatible(a, b), "compatible() disagrees with the RFC table");
    assert!(r == b.compatible(a), "compatible() is not symmetric");
    kani::cover!(r, "some pair is compatible");
    kani::cover!(!r, "some pair is incompatible");
}

fn mech_name(m: ZmqMechanism) -> &'static [u8] {
    match m {
        ZmqMechanism::NULL => b"NULL",
        ZmqMechanism::PLAIN => b"PLAIN",
        ZmqMechanism::CURVE => b"CURVE",
    }
}

/// executable twin of the Verus spec function `rfc_mech_parse` (units/codec.rs)
fn rfc_mech_parse(field: &[u8]) -> Option<ZmqMechanism> {
    let mut n = 0;
    while n < field.len() && field[n] != 0 {
        n += 1;
    }
    let name = &field[..n];
    if name == mech_name(ZmqMechanism::NULL) {
        Some(ZmqMechanism::NULL)
    } else if name == mech_name(ZmqMechanism::PLAIN) {
        Some(ZmqMechanism::PLAIN)
    } else if name == mech_name(ZmqMechanism::CURVE) {
        Some(ZmqMechanism::CURVE)
    } else {
        None
    }
}

fn mech_eq(a: ZmqMechanism, b: ZmqMechanism) -> bool {
    matches!(
        (a, b),
        (ZmqMechanism::NULL, ZmqMechanism::NULL) | (ZmqMechanism::PLAIN, ZmqMechanism::PLAIN) | (ZmqMechanism::CURVE, ZmqMechanism::CURVE)
    )
}

/// COMPLETE for the greeting's 20 octet mechanism field: discharges the contract that the Verus
/// units assume for `ZmqMechanism::try_from` (same statement: result == rfc_mech_parse(field)).
#[kani::proof]
#[kani::unwind(22)]
fn mech_parse() {
    let field: [u8; 20] = kani::any();
    let r = ZmqMechanism::try_from(&field[..]);
    let good = match (&r, rfc_mech_parse(&field)) {
        (Ok(m), Some(e)) => mech_eq(*m, e),
        (Err(_), None) => true,
        _ => false,
    };
    std::mem::forget(r);
    assert!(good, "ZmqMechanism::try_from disagrees with the RFC mechanism grammar");
    kani::cover!(rfc_mech_parse(&field).is_some(), "a valid mechanism is reachable");
}

/// BOUNDED (slices of length <= 8; every name is <= 6 octets and slice patterns compare the
/// length first): Ok(t) iff the octets are exactly the RFC name of t.  The result is forgotten,
/// not dropped: the drop glue of ZmqError (io::Error, ZmqMessage, ...) costs CBMC minutes and is
/// not what this harness is about.
#[kani::proof]
#[kani::unwind(10)]
fn socktype_parse() {
    let buf: [u8; 8] = kani::any();
    let n: usize = kani::any();
    kani::assume(n <= 8);
    let s = &buf[..n];
    let r = SocketType::try_from(s);
    let good = match &r {
        Ok(SocketType::PAIR) => s == b"PAIR",
        Ok(SocketType::PUB) => s == b"PUB",
        Ok(SocketType::SUB) => s == b"SUB",
        Ok(SocketType::REQ) => s == b"REQ",
        Ok(SocketType::REP) => s == b"REP",
        Ok(SocketType::DEALER) => s == b"DEALER",
        Ok(SocketType::ROUTER) => s == b"ROUTER",
        Ok(SocketType::PULL) => s == b"PULL",
        Ok(SocketType::PUSH) => s == b"PUSH",
        Ok(SocketType::XPUB) => s == b"XPUB",
        Ok(SocketType::XSUB) => s == b"XSUB",
        Ok(SocketType::STREAM) => s == b"STREAM",
        Err(_) => !(s == b"PAIR" || s == b"PUB" || s == b"SUB" || s == b"REQ" || s == b"REP" || s == b"DEALER"
            || s == b"ROUTER" || s == b"PULL" || s == b"PUSH" || s == b"XPUB" || s == b"XSUB" || s == b"STREAM"),
    };
    kani::cover!(r.is_ok(), "a valid name is reachable");
    kani::cover!(r.is_err(), "an invalid name is reachable");
    std::mem::forget(r);
    assert!(good, "SocketType::try_from disagrees with the RFC socket type names");
}

/// COMPLETE: as_str() yields the RFC name of each type (what READY announces).
#[kani::proof]
fn socktype_as_str() {
    assert!(SocketType::PAIR.as_str() == "PAIR" && SocketType::PUB.as_str() == "PUB" && SocketType::SUB.as_str() == "SUB");
    assert!(SocketType::REQ.as_str() == "REQ" && SocketType::REP.as_str() == "REP" && SocketType::DEALER.as_str() == "DEALER");
    assert!(SocketType::ROUTER.as_str() == "ROUTER" && SocketType::PULL.as_str() == "PULL" && SocketType::PUSH.as_str() == "PUSH");
    assert!(SocketType::XPUB.as_str() == "XPUB" && SocketType::XSUB.as_str() == "XSUB" && SocketType::STREAM.as_str() == "STREAM");
}

fn any_mechanism() -> ZmqMechanism {
    let i: u8 = kani::any();
    kani::assume(i < 3);
    match i {
        0 => ZmqMechanism::NULL,
        1 => ZmqMechanism::PLAIN,
        _ => ZmqMechanism::CURVE,
    }
}

/// COMPLETE (loop-free, full domain: every version, the three mechanisms, both as-server values):
/// the greeting the library emits has the RFC 23 layout octet for octet and parses back.
#[kani::proof]
#[kani::unwind(66)]
fn greeting_ser() {
    let g = ZmqGreeting {
        version: (kani::any(), kani::any()),
        mechanism: any_mechanism(),
        as_server: kani::any(),
    };
    let out: BytesMut = g.into();
    assert!(out.len() == 64, "greeting is not 64 octets");
    assert!(out[0] == 0xff && out[9] == 0x7f, "signature");
    let mut i = 1;
    while i < 9 {
        assert!(out[i] == 0, "signature padding");
        i += 1;
    }
    assert!(out[10] == g.version.0 && out[11] == g.version.1, "version");
    let name = mech_name(g.mechanism);
    let mut i = 0;
    while i < 20 {
        let want = if i < name.len() { name[i] } else { 0 };
        assert!(out[12 + i] == want, "mechanism must be NUL padded to 20 octets");
        i += 1;
    }
    assert!(out[32] == (g.as_server as u8), "as-server");
    let mut i = 33;
    while i < 64 {
        assert!(out[i] == 0, "filler must be zero");
        i += 1;
    }
    let r = ZmqGreeting::try_from(out.freeze());
    let good = match &r {
        Ok(p) => p.version == g.version && mech_eq(p.mechanism, g.mechanism) && p.as_server == g.as_server,
        Err(_) => false,
    };
    std::mem::forget(r);
    assert!(good, "the library cannot parse its own greeting back to the same value");
}

/// The default greeting announces ZMTP 3.0 / NULL / not-a-server.
#[kani::proof]
fn greeting_default() {
    let g = ZmqGreeting::default();
    assert!(g.version == (3, 0) && mech_eq(g.mechanism, ZmqMechanism::NULL) && !g.as_server);
}


// ---- ZmqCommand::try_from: panic-freedom over every short command body (BOUNDED) ----
// std's HashMap is intractable for CBMC; the property map is write-only in try_from (its content never
// influences control flow), so `insert` is stubbed to a no-op that just drops key and value.
fn hm_insert_stub<K, V, S, A: std::alloc::Allocator>(_m: &mut std::collections::HashMap<K, V, S, A>, _k: K, _v: V) -> Option<V> {
    None
}
fn random_state_stub() -> std::collections::hash_map::RandomState {
    unsafe { std::mem::transmute([0u64; 2]) }
}

/// Checks assumed region A-REGION-2 (the `match &buf[..command_len] { b"READY" => .. }` statement that the
/// Verus unit replaces by a stub) on the REAL function: for every command body that consists of a name only
/// (name-size octet + up to 6 name octets, no properties), try_from is Ok exactly for the name READY.
/// COMPLETE for that domain (the property loop is not entered).
#[kani::proof]
#[kani::unwind(8)]
#[kani::stub(std::collections::HashMap::insert, hm_insert_stub)]
#[kani::stub(std::collections::hash_map::RandomState::new, random_state_stub)]
fn cmd_name_only() {
    let buf: [u8; 7] = kani::any();
    let n: usize = kani::any();
    kani::assume(n >= 1 && n <= 7);
    kani::assume(buf[0] as usize == n - 1);
    let b = Bytes::copy_from_slice(&buf[..n]);
    let r = ZmqCommand::try_from(b);
    let is_ready = &buf[1..n] == b"READY";
    let ok = r.is_ok();
    kani::cover!(ok, "READY is reachable");
    kani::cover!(!ok, "another name is reachable");
    std::mem::forget(r);
    assert!(ok == is_ready, "command name match disagrees with the literal READY");
}

use asynchronous_codec::{Decoder, Encoder};

/// COMPLETE: the only command name is the five octets "READY" (discharges the contract the Verus unit
/// assumes for ZmqCommandName::as_str)
#[kani::proof]
fn cmdname_as_str() {
    assert!(crate::codec::ZmqCommandName::READY.as_str().as_bytes() == b"READY");
}

// =====================================================================================================
// bytes_spec_*: conformance of the specifications the Verus units ASSUME for the `bytes` crate
// (prelude/bytes_specs.rs) with the real implementation.  BOUNDED: buffers of at most 8 octets.
// Each harness establishes a spec's precondition, calls the real function (Kani checks it cannot
// panic) and compares the result with the sequence-level postcondition.
// =====================================================================================================
use bytes::{Buf, BufMut};

fn any_buf8() -> ([u8; 8], usize) {
    let b: [u8; 8] = kani::any();
    let n: usize = kani::any();
    kani::assume(n <= 8);
    (b, n)
}
fn same(a: &[u8], b: &[u8]) -> bool {
    if a.len() != b.len() {
        return false;
    }
    let mut i = 0;
    while i < a.len() {
        if a[i] != b[i] {
            return false;
        }
        i += 1;
    }
    true
}

/// BytesMut: len / is_empty / deref / get_u8 / get_u32 / get_u64 / advance / remaining
#[kani::proof]
#[kani::unwind(10)]
fn bytes_spec_bm_read() {
    let (b, n) = any_buf8();
    let mut m = BytesMut::from(&b[..n]);
    assert!(m.len() == n && m.is_empty() == (n == 0) && m.remaining() == n && m.has_remaining() == (n > 0));
    assert!(same(&m[..], &b[..n]));
    let which: u8 = kani::any();
    if which == 0 && n >= 1 {
        let x = m.get_u8();
        assert!(x == b[0] && same(&m[..], &b[1..n]));
    } else if which == 1 && n >= 4 {
        let x = m.get_u32();
        assert!(x == u32::from_be_bytes([b[0], b[1], b[2], b[3]]) && same(&m[..], &b[4..n]));
    } else if which == 2 && n >= 8 {
        let x = m.get_u64();
        assert!(x == u64::from_be_bytes(b) && m.len() == 0);
    } else if which == 3 {
        let k: usize = kani::any();
        kani::assume(k <= n);
        m.advance(k);
        assert!(same(&m[..], &b[k..n]));
    }
}

fn any_buf4() -> ([u8; 4], usize) {
    let b: [u8; 4] = kani::any();
    let n: usize = kani::any();
    kani::assume(n <= 4);
    (b, n)
}
/// BytesMut::split_to keeps the octets on both sides (buffers of at most 4 octets)
#[kani::proof]
#[kani::unwind(6)]
fn bytes_spec_bm_split_to() {
    let (b, n) = any_buf4();
    let mut m = BytesMut::from(&b[..n]);
    let at: usize = kani::any();
    kani::assume(at <= n);
    let head = m.split_to(at);
    assert!(same(&head[..], &b[..at]) && same(&m[..], &b[at..n]));
    std::mem::forget(head);
    std::mem::forget(m);
}
/// BytesMut::freeze keeps the octets (buffers of at most 4 octets)
#[kani::proof]
#[kani::unwind(6)]
fn bytes_spec_bm_freeze() {
    let (b, n) = any_buf4();
    let m = BytesMut::from(&b[..n]);
    let f = m.freeze();
    assert!(f.len() == n && same(&f[..], &b[..n]));
    std::mem::forget(f);
}
/// BytesMut / BufMut: new, with_capacity, put_u8 / put_u32 / put_u64 / extend_from_slice append big-endian octets
#[kani::proof]
#[kani::unwind(10)]
fn bytes_spec_bm_write() {
    let mut m = if kani::any() { BytesMut::new() } else { BytesMut::with_capacity(4) };
    assert!(m.len() == 0);
    let a: u8 = kani::any();
    let w: u32 = kani::any();
    let q: u64 = kani::any();
    let which: u8 = kani::any();
    m.put_u8(a);
    if which == 0 {
        m.put_u32(w);
        let e = w.to_be_bytes();
        assert!(m.len() == 5 && m[0] == a && m[1] == e[0] && m[2] == e[1] && m[3] == e[2] && m[4] == e[3]);
    } else if which == 1 {
        m.put_u64(q);
        let e = q.to_be_bytes();
        assert!(m.len() == 9 && m[0] == a && same(&m[1..], &e));
    } else {
        let (b, n) = any_buf8();
        m.extend_from_slice(&b[..n]);
        assert!(m.len() == 1 + n && m[0] == a && same(&m[1..], &b[..n]));
    }
}

/// Bytes: new / len / is_empty / deref / as_ref / clone (buffers of at most 4 octets)
#[kani::proof]
#[kani::unwind(6)]
fn bytes_spec_b_basic() {
    assert!(Bytes::new().len() == 0);
    let (b, n) = any_buf4();
    let x = Bytes::copy_from_slice(&b[..n]);
    assert!(x.len() == n && x.is_empty() == (n == 0));
    assert!(same(&x[..], &b[..n]) && same(x.as_ref(), &b[..n]));
    let c = x.clone();
    assert!(same(&c[..], &b[..n]));
    std::mem::forget(c);
    std::mem::forget(x);
}
/// Bytes::split_to (buffers of at most 4 octets)
#[kani::proof]
#[kani::unwind(6)]
fn bytes_spec_b_split_to() {
    let (b, n) = any_buf4();
    let mut x = Bytes::copy_from_slice(&b[..n]);
    let at: usize = kani::any();
    kani::assume(at <= n);
    let head = x.split_to(at);
    assert!(same(&head[..], &b[..at]) && same(&x[..], &b[at..n]));
    std::mem::forget(head);
    std::mem::forget(x);
}
/// Bytes::advance (buffers of at most 4 octets)
#[kani::proof]
#[kani::unwind(6)]
fn bytes_spec_b_advance() {
    let (b, n) = any_buf4();
    let mut x = Bytes::copy_from_slice(&b[..n]);
    let k: usize = kani::any();
    kani::assume(k <= n);
    x.advance(k);
    assert!(same(&x[..], &b[k..n]));
    std::mem::forget(x);
}
/// Bytes::get_u8 / get_u32 (buffers of at most 4 octets)
#[kani::proof]
#[kani::unwind(6)]
fn bytes_spec_b_get() {
    let (b, n) = any_buf4();
    let mut x = Bytes::copy_from_slice(&b[..n]);
    if kani::any() {
        kani::assume(n >= 1);
        let v = x.get_u8();
        assert!(v == b[0] && same(&x[..], &b[1..n]));
    } else {
        kani::assume(n == 4);
        let v = x.get_u32();
        assert!(v == u32::from_be_bytes(b) && x.len() == 0);
    }
    std::mem::forget(x);
}

/// Bytes::from(&'static str) holds the string's octets
#[kani::proof]
#[kani::unwind(10)]
fn bytes_spec_b_from_str() {
    let x: Bytes = "DEALER".into();
    assert!(same(&x[..], b"DEALER"));
}
