#!/usr/bin/env python3
"""tools/vocab.py [write]   -- the vocabulary of each unit: every function / method / macro name the real bodies of
the unit call on the tree the contracts were written for.  `write` stores it in units/vocabulary.json (committed by
hand, like the templates; never written by a check).  A failed obligation in a body that calls something outside
its unit's vocabulary is undecided: the proof was never run against that callee's specification, and vstd / the
prelude specify many std functions only weakly (u8::from(bool), `for x in &map`, ...), so the failure cannot be
attributed to the code."""
import json, os, sys
HERE = os.path.dirname(os.path.abspath(__file__))
VERIF = os.path.dirname(HERE)
sys.path.insert(0, HERE)
import extract
UNITS = ['codec', 'message', 'handshake', 'reqrep', 'routing', 'fairqueue', 'pubsub', 'sub']


def current(repo='/repo'):
    voc = {}
    for u in UNITS:
        U = extract.build_unit(u, repo, VERIF)
        names = set()
        for f in U.fns:
            names |= set(f.callees)
        voc[u] = sorted(names)
    return voc


# vstd specifications probed strong (spikes/vstd_spec_probe.rs: each verifies a full functional postcondition);
# `u8::from(bool)` failed the probe and is deliberately absent
REVIEWED = ['.saturating_sub', 'usize::from', 'u64::try_from', 'u8::try_from', '.expect', '.is_some', '.is_none', '.unwrap_or', '.min',
            '.checked_add', '.swap_remove', '.insert', '.push_front', '.ok_or', '.last', '.contains', '.contains_key', '.is_ok', '.is_err',
            '.pop_back', '.pop_front', '.push_back', '.clear', '.truncate', '.pop', '.push', '.first', '.take', '.extend_from_slice', '.max', '.remove',
            '.len', '.is_empty', '.unwrap', '.clone', '.kind', 'matches!']


if __name__ == '__main__':
    v = current()
    v['_reviewed'] = REVIEWED
    if len(sys.argv) > 1 and sys.argv[1] == 'write':
        json.dump(v, open(os.path.join(VERIF, 'units', 'vocabulary.json'), 'w'), indent=1, sort_keys=True)
        print('written')
    else:
        old = json.load(open(os.path.join(VERIF, 'units', 'vocabulary.json')))
        for u in UNITS:
            new = set(v[u]) - set(old.get(u, []))
            if new:
                print(u, 'NEW:', sorted(new))
