"""./check selftest [ids..]   -- mutation / harmless-edit catalogue on scratch copies of /repo.

Every entry is a textual edit of the real source.  `expect` says what the named property's check must do:
  'violation' -> exit 1        (a property-breaking change must be reported)
  'ok'        -> exit 0        (a harmless edit must NOT raise an alarm, and should not go undecided)
  'no-alarm'  -> exit 0 or 2   (a harmless edit that leaves the Verus-readable subset: undecided is fine, an alarm is not)
A miss is reported as a failure of the SELFTEST (exit 2), never as a property violation.
Scratch worktrees live under /var/tmp and are removed afterwards.
"""
import concurrent.futures as cf
import json
import os
import shutil
import subprocess
import sys
import tempfile
import time

HERE = os.path.dirname(os.path.abspath(__file__))
VERIF = os.path.dirname(HERE)
REPO = '/repo'

M = []


def mut(id, prop, file, old, new, expect='violation', kani=False, note='', more=()):
    # `more`: further (old, new) replacements in the same file (an edit with two sites)
    M.append(dict(id=id, prop=prop, file=file, old=old, new=new, expect=expect, kani=kani, note=note, more=list(more)))


# ---------------------------------------------------------------- C01 framing
mut('c01-boundary-255', 'C01', 'src/codec/zmq_codec.rs', "    if len > 255 {\n        flags |= 0b0000_0010;", "    if len >= 255 {\n        flags |= 0b0000_0010;", note='LONG flag at 255 but size written short')
mut('c01-boundary-256-both', 'C01', 'src/codec/zmq_codec.rs', "len > 255", "len > 256", note='both tests moved: 256 byte body gets a one-octet size')
mut('c01-more-bit', 'C01', 'src/codec/zmq_codec.rs', "        flags |= 0b0000_0001;", "        flags |= 0b0000_0100;", note='MORE encoded as COMMAND bit')
mut('c01-size-width', 'C01', 'src/codec/zmq_codec.rs', "        dst.put_u64(len as u64);", "        dst.put_u32(len as u32);")
mut('c01-decode-long-len', 'C01', 'src/codec/zmq_codec.rs', "self.waiting_for = if frame.long { 8 } else { 1 };", "self.waiting_for = if frame.long { 4 } else { 1 };")
mut('c01-decode-flag-mask', 'C01', 'src/codec/zmq_codec.rs', "long: (flags & 0b0000_0010) != 0,", "long: (flags & 0b0000_0110) != 0,", note='command frames with a short size are read as long')
mut('c01-greeting-sig', 'C01', 'src/codec/greeting.rs', "data[9] = 0x7f;", "data[8] = 0x7f;", kani=True, note='signature terminator at the wrong offset (Kani greeting_ser)')
mut('c01-greeting-parse-offset', 'C01', 'src/codec/greeting.rs', "as_server: value[32] == 0x01,", "as_server: value[31] == 0x01,")
mut('c01-cmd-value-len', 'C01', 'src/codec/command.rs', "            if buf.len() < 4 {\n                return Err(CodecError::Decode(\"Invalid property value\"));\n            }\n            let prop_val_len = buf.get_u32() as usize;", "            if buf.len() < 2 {\n                return Err(CodecError::Decode(\"Invalid property value\"));\n            }\n            let prop_val_len = buf.get_u16() as usize;", expect='any-nonzero', note='value-size read as 2 octets: unsupported get_u16 -> undecided is acceptable, exit 0 is not')
mut('c01-ready-long-size', 'C01', 'src/codec/command.rs', "            bytes.put_u64(message_len as u64);", "            bytes.put_u32(message_len as u32);", note='long READY (identity > ~220 octets) gets a 4 octet size')
mut('c01-ready-long-flag', 'C01', 'src/codec/command.rs', "            bytes.put_u8(0x06);", "            bytes.put_u8(0x04);", note='long READY flagged as short')
mut('c01-ready-len-count', 'C01', 'src/codec/command.rs', "            message_len += val.len() + 4;", "            message_len += val.len() + 2;", note='size field two octets short per property')
mut('c01-ready-threshold', 'C01', 'src/codec/command.rs', "        let long_message = message_len > 255;", "        let long_message = message_len > 256;", note='256 octet READY body with a one octet size')
mut('c01-cmd-value-short', 'C01', 'src/codec/command.rs', "            let prop_value = buf.split_to(prop_val_len);\n            properties.insert(property, prop_value);", "            let mut prop_value = buf.split_to(prop_val_len);\n            if prop_val_len > 64 { prop_value.truncate(64); }\n            properties.insert(property, prop_value);", expect='any-nonzero', note='long property values silently truncated (Bytes::truncate has no spec -> undecided acceptable)')
mut('c01-cmd-first-wins', 'C01', 'src/codec/command.rs', "            properties.insert(property, prop_value);", "            if !properties.contains_key(&property) { properties.insert(property, prop_value); }", expect='any-nonzero', note='duplicate property: first one wins instead of last')
mut('c01-encode-more-inverted', 'C01', 'src/codec/zmq_codec.rs', "encode_frame(part, dst, idx != last_element);", "encode_frame(part, dst, idx == last_element);", note='MORE only on the last frame')
mut('c01-encode-last-off-by-one', 'C01', 'src/codec/zmq_codec.rs', "                let last_element = message.len() - 1;", "                let last_element = message.len();", note='MORE set on the last frame too: the peer waits for a frame that never comes')
# ---------------------------------------------------------------- C02 segmentation
mut('c02-lose-partial', 'C02', 'src/codec/zmq_codec.rs', "                        Some(v) => v.push_back(data.freeze()),", "                        Some(v) => *v = ZmqMessage::from(data.freeze()),", note='earlier frames of a multipart message are dropped')
mut('c02-state-not-saved', 'C02', 'src/codec/zmq_codec.rs', "                    self.state = DecoderState::FrameLen(frame);\n", "", note='header consumed but state not advanced: depends on whether the length is in the same read')
mut('c02-waiting-reset', 'C02', 'src/codec/zmq_codec.rs', "                    let data = src.split_to(self.waiting_for);\n                    self.state = DecoderState::FrameHeader;\n                    self.waiting_for = 1;", "                    let data = src.split_to(self.waiting_for);\n                    self.state = DecoderState::FrameHeader;", note='waiting_for keeps the body length: next header waits for too many bytes')
mut('c02-command-clears-partial', 'C02', 'src/codec/zmq_codec.rs', "                    if frame.command {\n", "                    if frame.command {\n                        self.buffered_message = None;\n", note='a command between the frames of a multipart message discards the partial message')
# ---------------------------------------------------------------- C03 robustness
mut('c03-reserve-back', 'C03', 'src/codec/zmq_codec.rs', "            if src.len() < self.waiting_for {\n                return Ok(None);", "            if src.len() < self.waiting_for {\n                src.reserve(self.waiting_for - src.len());\n                return Ok(None);", note='F2 returns')
mut('c03-reserve-capped-wrong', 'C03', 'src/codec/zmq_codec.rs', "            if src.len() < self.waiting_for {\n                return Ok(None);", "            if src.len() < self.waiting_for {\n                src.reserve((self.waiting_for - src.len()).min(1 << 30));\n                return Ok(None);", note='capped at 1 GiB: still out of proportion')
mut('c03-cmd-name-check', 'C03', 'src/codec/command.rs', "        if buf.len() < command_len {\n            return Err(CodecError::Command(\"Malformed command\"));\n        }\n", "", note='F3 returns (name length)')
mut('c03-cmd-prop-off-by-one', 'C03', 'src/codec/command.rs', "            if buf.len() < prop_len {", "            if buf.len() + 1 < prop_len {", note='off by one in the property-name bound')
mut('c03-cmd-empty', 'C03', 'src/codec/command.rs', "        if buf.is_empty() {\n            return Err(CodecError::Command(\"Malformed command\"));\n        }\n", "", note='empty command frame panics in get_u8')
mut('c03-matrix-index', 'C03', 'src/lib.rs', "COMPATIBILITY_MATRIX[row_index * 12 + col_index] != 0", "COMPATIBILITY_MATRIX[row_index * 13 + col_index] != 0", note='out of bounds for STREAM row')
mut('c03-decode-greeting-len', 'C03', 'src/codec/zmq_codec.rs', "            waiting_for: 64, // len of the greeting frame", "            waiting_for: 60, // len of the greeting frame", note='split_to(64) on 60..63 buffered bytes panics')
mut('c03-recursion-back', 'C03', 'src/codec/zmq_codec.rs', "                    if !frame.more {", "                    if frame.more {\n                        return self.decode(src);\n                    }\n                    if !frame.more {", expect='any-nonzero', note='F4 returns: recursion per frame (a recursive exec fn needs a decreases measure; Verus reports it)')
mut('c03-pub-empty-guard', 'C03', 'src/pub.rs', "        if data.is_empty() {\n            return;\n        }\n", "", expect='ok', note='HARMLESS: data.first() is None for an empty frame and the _ arm handles it; data[1..] is only evaluated in the Some arms')
mut('c03-pub-slice-from-2', 'C03', 'src/pub.rs', "                    entry.subscriptions.push(Vec::from(&data[1..]));", "                    entry.subscriptions.push(Vec::from(&data[2..]));", note='a bare 0x01 frame (subscribe to everything) panics on data[2..]')
mut('c03-xpub-unsubscribe-index', 'C03', 'src/xpub.rs', "                        entry.subscriptions.remove(index);", "                        entry.subscriptions.remove(index + 1);", note='removing past the end panics when the cancelled topic is the last one')
# ---------------------------------------------------------------- C04 handshake
mut('c04-version-gt', 'C04', 'src/util.rs', "            if peer.version >= my_version {", "            if peer.version > my_version {", note='rejects 3.0 peers (tests only cover via real sockets? no: unit tests cover; kept as control)')
mut('c04-version-minor', 'C04', 'src/util.rs', "            if peer.version >= my_version {", "            if peer.version.0 >= my_version.0 && peer.version.1 >= my_version.1 {", expect='ok', note='equivalent for my_version = (3,0): must NOT alarm')
mut('c04-matrix-flip', 'C04', 'src/lib.rs', "    0, 0, 0, 1, 0, 1, 0, 0, 0, 0, 0, 0, // REP", "    0, 0, 0, 1, 0, 1, 1, 0, 0, 0, 0, 0, // REP", kani=False, note='REP accepts ROUTER (asymmetric)')
mut('c04-skip-compat', 'C04', 'src/util.rs', "                if socket_type.compatible(other_sock_type) {", "                if socket_type.compatible(other_sock_type) || other_sock_type == SocketType::PAIR {", note='PAIR admitted everywhere')
mut('c04-identity-256', 'C04', 'src/util.rs', "        } else if data.len() > Self::MAX_LENGTH {", "        } else if data.len() > Self::MAX_LENGTH + 1 {", note='256 byte identity accepted')
mut('c04-identity-ignored-error', 'C04', 'src/util.rs', "                    .map(|x| x.clone().try_into())\n                    .transpose()?\n                    .unwrap_or_default();", "                    .map(|x| x.clone().try_into())\n                    .transpose()\n                    .unwrap_or_default()\n                    .unwrap_or_default();", note='over-long identity silently replaced by a generated one')
mut('c04-register-before-ready', 'C04', 'src/util.rs', "    let peer_id = ready_exchange(&mut raw_socket, backend.socket_type(), props).await?;\n    backend.peer_connected(&peer_id, raw_socket).await;\n    Ok(peer_id)", "    let peer_id = match ready_exchange(&mut raw_socket, backend.socket_type(), props).await {\n        Ok(id) => id,\n        Err(_) => PeerIdentity::new(),\n    };\n    backend.peer_connected(&peer_id, raw_socket).await;\n    Ok(peer_id)", note='failed READY exchange still registers the peer')
mut('c04-greeting-mech-range', 'C04', 'src/codec/greeting.rs', "ZmqMechanism::try_from(&value[12..32])?", "ZmqMechanism::try_from(&value[12..31])?", note='mechanism field one octet short')
# ---------------------------------------------------------------- C07 envelopes
mut('c07-req-two-delims', 'C07', 'src/req.rs', "                message.push_front(Bytes::new());\n", "                message.push_front(Bytes::new());\n                if message.len() == 2 { message.push_front(Bytes::new()); }\n", note='single-frame payloads get two delimiters')
mut('c07-req-recv-len', 'C07', 'src/req.rs', "                            if m.len() < 2 {", "                            if m.len() < 1 {", expect='any-nonzero', note='[""] accepted as reply with zero frames')
mut('c07-rep-split-off-by-one', 'C07', 'src/rep.rs', "                        let data = m.split_off(at);", "                        let data = m.split_off(at - 1);", note='delimiter handed to the application')
mut('c07-rep-delim-last-back', 'C07', 'src/rep.rs', "                        if at == m.len() {", "                        if at > m.len() {", note='F5 returns')
mut('c07-prepend-order', 'C07', 'src/message.rs', "        for frame in message.iter().rev() {", "        for frame in message.iter() {", note='multi-frame envelopes are reversed (tests use single-id envelopes... test_prepend covers)')
mut('c07-rep-envelope-stale', 'C07', 'src/rep.rs', "                    if let Some(envelope) = self.envelope.take() {\n                        message.prepend(&envelope);\n                    }", "                    if let Some(envelope) = &self.envelope {\n                        message.prepend(envelope);\n                    }", note='envelope not consumed')
mut('c07-pop-front-back', 'C07', 'src/message.rs', "        self.frames.pop_front()\n", "        self.frames.pop_back()\n", note='ZmqMessage::pop_front pops the wrong end')
mut('c07-rep-loop-at-index', 'C07', 'src/rep.rs', "                                at = index + 1;", "                                at = index;", note='inside the former assumed region: envelope excludes the delimiter')
mut('c07-rep-loop-last-delim', 'C07', 'src/rep.rs', "                                at = index + 1;\n                                break;", "                                at = index + 1;", note='inside the former assumed region: LAST empty frame taken as delimiter (empty frames in the payload break)')
# ---------------------------------------------------------------- C08 lock-step
mut('c08-req-marker-not-set', 'C08', 'src/req.rs', "                self.current_request = Some(next_peer_id);\n", "", note='REQ never records the outstanding request')
mut('c08-req-send-out-of-turn', 'C08', 'src/req.rs', "        if self.current_request.is_some() {", "        if self.current_request.is_some() && self.backend.round_robin.len() == 0 {", expect='any-nonzero', note='second send allowed while peers are connected (SegQueue::len not in stand-in -> undecided acceptable)')
mut('c08-rep-reply-twice', 'C08', 'src/rep.rs', "        match self.current_request.take() {", "        match self.current_request.clone() {", note='REP may reply twice to one request')
mut('c08-rep-wrong-peer', 'C08', 'src/rep.rs', "                        self.current_request = Some(peer_id);", "                        if self.current_request.is_none() { self.current_request = Some(peer_id); }", note='stale requester kept when a second request arrives')
mut('c08-req-recv-keeps-marker', 'C08', 'src/req.rs', "                    let reply = peer.recv_queue.next().await;\n                    self.current_request = None;", "                    let reply = peer.recv_queue.next().await;", note='REQ recv never clears the marker')
# ---------------------------------------------------------------- C09 router
mut('c09-router-label-back', 'C09', 'src/router.rs', "                    message.push_front(peer_id.into());", "                    message.push_back(peer_id.into());", note='identity appended instead of prepended')
mut('c09-router-send-keeps-id', 'C09', 'src/router.rs', "        let peer_id: PeerIdentity = message.pop_front().unwrap().try_into()?;", "        let peer_id: PeerIdentity = message.get(0).unwrap().clone().try_into()?;", note='identity frame forwarded to the peer')
mut('c09-register-wrong-id', 'C09', 'src/backend.rs', "        self.round_robin.push(peer_id.clone());\n        match &self.fair_queue_inner {", "        self.round_robin.push(peer_id.clone());\n        let peer_id = &PeerIdentity::new();\n        match &self.fair_queue_inner {", note='read half queued under a different identity (former assumed region A-REGION-3, now verified)')
mut('c09-register-peers-wrong-id', 'C09', 'src/backend.rs', "            .upsert_async(peer_id.clone(), Peer { send_queue })", "            .upsert_async(PeerIdentity::new(), Peer { send_queue })", note='write half stored under a generated identity')
mut('c09-router-error-not-forgotten', 'C09', 'src/router.rs', "                    self.backend.peer_disconnected(&peer_id);\n                    // We could", "                    // We could", note='failed peer stays routable')
# ---------------------------------------------------------------- C10 round robin
mut('c10-no-rotate', 'C10', 'src/backend.rs', "                    self.round_robin.push(next_peer_id.clone());\n                    Ok(next_peer_id)", "                    Ok(next_peer_id)", note='peer leaves the rotation after one message')
mut('c10-feed-no-flush', 'C10', 'src/backend.rs', "                Some(mut peer) => peer.send_queue.send(message).await,", "                Some(mut peer) => peer.send_queue.feed(message).await,", note='message buffered, not on the wire when send returns')
mut('c10-error-keeps-peer', 'C10', 'src/backend.rs', "                    self.peer_disconnected(&next_peer_id);\n                    Err(e.into())", "                    self.round_robin.push(next_peer_id.clone());\n                    Err(e.into())", note='failed peer stays in table and rotation')
mut('c10-req-rotate-front', 'C10', 'src/req.rs', "                self.backend.round_robin.push(next_peer_id.clone());\n", "", note='REQ drops the peer from its rotation')
mut('c10-empty-panics', 'C10', 'src/backend.rs', "                    Message::Message(m) => {\n                        return Err(ZmqError::ReturnToSender {", "                    Message::Message(m) if m.len() > 1 => panic!(\"multipart without peers\"),\n                    Message::Message(m) => {\n                        return Err(ZmqError::ReturnToSender {", note='multipart message with no peers panics instead of coming back')
# ---------------------------------------------------------------- C14 cancellation
mut('c14-req-take-back', 'C14', 'src/req.rs', "        match self.current_request.clone() {", "        match self.current_request.take() {", note='F6 returns')
mut('c14-rep-state-before-await', 'C14', 'src/rep.rs', "        loop {\n            match self.fair_queue.next().await {\n                Some((peer_id, Ok(message))) => match message {", "        self.envelope = None;\n        loop {\n            match self.fair_queue.next().await {\n                Some((peer_id, Ok(message))) => match message {", note='REP forgets the stored envelope when recv is merely started')
mut('c14-fq-stale-waker', 'C14', 'src/fair_queue.rs', "                inner.waker = Some(cx.waker().clone());\n", "                if inner.waker.is_none() { inner.waker = Some(cx.waker().clone()); }\n", note='a waker left by an abandoned recv is kept: the new waiter is never woken')
mut('c14-fq-pending-not-put-back', 'C14', 'src/fair_queue.rs', "                Poll::Pending => {\n                    let mut inner = fair_queue.inner.lock();\n                    inner.streams.insert(event.key, io_stream);\n                    continue;", "                Poll::Pending => {\n                    continue;", note='a stream that was merely not ready is dropped from the queue')
mut('c14-fq-wrong-key', 'C14', 'src/fair_queue.rs', "                    inner.streams.insert(event.key, io_stream);\n                    return Poll::Ready(item);", "                    return Poll::Ready(item);", note='stream that yielded an item is not put back')
# ---------------------------------------------------------------- harmless edits (must stay exit 0)
mut('h-rename-local', 'C01', 'src/codec/zmq_codec.rs', "let flags = src.get_u8();\n\n                    let frame = Frame {\n                        command: (flags & 0b0000_0100) != 0,\n                        long: (flags & 0b0000_0010) != 0,\n                        more: (flags & 0b0000_0001) != 0,", "let fl = src.get_u8();\n\n                    let frame = Frame {\n                        command: (fl & 0b0000_0100) != 0,\n                        long: (fl & 0b0000_0010) != 0,\n                        more: (fl & 0b0000_0001) != 0,", expect='ok')
mut('h-reorder-independent', 'C02', 'src/codec/zmq_codec.rs', "                    self.state = DecoderState::FrameHeader;\n                    self.waiting_for = 1;\n                    if frame.command {", "                    self.waiting_for = 1;\n                    self.state = DecoderState::FrameHeader;\n                    if frame.command {", expect='ok')
mut('h-comment-and-log', 'C03', 'src/codec/zmq_codec.rs', "            if src.len() < self.waiting_for {\n                return Ok(None);", "            // wait for the rest\n            if src.len() < self.waiting_for {\n                log::trace!(\"need {} more\", self.waiting_for - src.len());\n                return Ok(None);", expect='ok')
mut('h-req-rename', 'C08', 'src/req.rs', "next_peer_id", "candidate", expect='ok')
mut('h-rep-early-return-style', 'C07', 'src/rep.rs', "                        if at == m.len() {", "                        if at >= m.len() {", expect='ok', note='equivalent guard')
mut('h-router-comment', 'C09', 'src/router.rs', "                    message.push_front(peer_id.into());", "                    // label with the sender\n                    message.push_front(peer_id.into());", expect='ok')
mut('h-rr-rename', 'C10', 'src/backend.rs', "send_result", "outcome", expect='ok')
mut('h-fq-rename', 'C14', 'src/fair_queue.rs', 'io_stream', 'checked_out', expect='ok')
mut('h-decode-extra-local', 'C01', 'src/codec/zmq_codec.rs', "                    let flags = src.get_u8();\n", "                    let first = src.get_u8();\n                    let flags = first;\n", expect='ok')
mut('h-ready-lookup-order', 'C04', 'src/util.rs', '''                let other_sock_type = match command.properties.get("Socket-Type") {
                    Some(s) => SocketType::try_from(&s[..])?,
                    None => Err(ZmqError::Other("Failed to parse other socket type"))?,
                };

                let peer_id = command
                    .properties
                    .get("Identity")
                    .map(|x| x.clone().try_into())
                    .transpose()?
                    .unwrap_or_default();
''', '''                let peer_id = command
                    .properties
                    .get("Identity")
                    .map(|x| x.clone().try_into())
                    .transpose()?
                    .unwrap_or_default();

                let other_sock_type = match command.properties.get("Socket-Type") {
                    Some(s) => SocketType::try_from(&s[..])?,
                    None => Err(ZmqError::Other("Failed to parse other socket type"))?,
                };
''', expect='ok', note='only the precedence of two errors changes; admission is the same')
mut('h-rep-send-match', 'C07', 'src/rep.rs', "                    if let Some(envelope) = self.envelope.take() {\n                        message.prepend(&envelope);\n                    }", "                    match self.envelope.take() {\n                        Some(envelope) => message.prepend(&envelope),\n                        None => {}\n                    }", expect='ok')
mut('h-fq-reorder-putback', 'C14', 'src/fair_queue.rs', "                    inner.ready_queue.push(ReadyEvent {\n                        priority,\n                        key: event.key.clone(),\n                    });\n                    inner.streams.insert(event.key, io_stream);", "                    let again = ReadyEvent {\n                        priority,\n                        key: event.key.clone(),\n                    };\n                    inner.streams.insert(event.key, io_stream);\n                    inner.ready_queue.push(again);", expect='ok')
mut('h-rr-early-continue', 'C10', 'src/backend.rs', "            let send_result = match self.peers.get_async(&next_peer_id).await {\n                Some(mut peer) => peer.send_queue.send(message).await,\n                None => continue,\n            };", "            let mut peer = match self.peers.get_async(&next_peer_id).await {\n                Some(peer) => peer,\n                None => continue,\n            };\n            let send_result = peer.send_queue.send(message).await;", expect='ok')
mut('h-compat-local', 'C04', 'src/lib.rs', "        let row_index = *self as usize;\n        let col_index = other as usize;\n        COMPATIBILITY_MATRIX[row_index * 12 + col_index] != 0", "        let row = *self as usize;\n        let col = other as usize;\n        COMPATIBILITY_MATRIX[row * 12 + col] != 0", expect='ok')
mut('c11-pub-dup', 'C11', 'src/pub.rs', "for sub_filter in &subscriber.subscriptions {", "for sub_filter in &subscriber.subscriptions.clone() {", expect='any-nonzero', more=[("                    }\n                    break;\n                }\n            }\n            iter =", "                    }\n                }\n            }\n            iter =")], note='iterating over a copy and not stopping at the first match: a subscriber with two matching subscriptions gets the message twice (without the copy the borrow checker rejects the missing break)')
mut('c11-pub-prefix-strict', 'C11', 'src/pub.rs', "if sub_filter.len() <= message.get(0).unwrap().len()", "if sub_filter.len() < message.get(0).unwrap().len()", note='a subscription equal to the whole first frame no longer matches')
mut('c11-xpub-empty-sub', 'C11', 'src/xpub.rs', "if sub_filter.len() <= message.get(0).unwrap().len()", "if !sub_filter.is_empty() && sub_filter.len() <= message.get(0).unwrap().len()", note='the empty subscription no longer matches everything')
mut('c11-pub-second-frame', 'C11', 'src/pub.rs', "&& sub_filter.as_slice() == &message.get(0).unwrap()[0..sub_filter.len()]", "&& sub_filter.as_slice() == &message.get(message.len() - 1).unwrap()[0..sub_filter.len()]", expect='any-nonzero', note='filter applied to the LAST frame')
mut('c11-pub-cancel-wrong', 'C11', 'src/pub.rs', "                        entry.subscriptions.remove(index);", "                        entry.subscriptions.remove(0);", expect='any-nonzero', note='CANCEL removes the oldest subscription instead of the equal one')
mut('c11-pub-sub-dedup', 'C11', 'src/pub.rs', "                    entry.subscriptions.push(Vec::from(&data[1..]));", "                    if entry.subscriptions.is_empty() {\n                        entry.subscriptions.push(Vec::from(&data[1..]));\n                    }", note='only the first subscription of a peer is recorded')
mut('c11-xpub-cancel-keeps', 'C11', 'src/xpub.rs', "                        entry.subscriptions.remove(index);", "                        let _ = index;", expect='any-nonzero', note='CANCEL is ignored (the lemma hint is anchored on the removed statement: undecided)')
mut('c11-xpub-recv-no-bookkeeping', 'C11', 'src/xpub.rs', "                    self.backend\n                        .message_received(&peer_id, Message::Message(message.clone()));\n", "", note='XPUB hands the subscription to the application but does not record it')
mut('c11-xpub-recv-not-verbatim', 'C11', 'src/xpub.rs', "                    return Ok(message);\n                }\n                Some((_peer_id, Ok(_msg)))", "                    let mut message = message;\n                    message.pop_front();\n                    return Ok(message);\n                }\n                Some((_peer_id, Ok(_msg)))", expect='any-nonzero', note='the application gets the subscription message without its first frame')
mut('h-c11-swap-remove', 'C11', 'src/pub.rs', "                        entry.subscriptions.remove(index);", "                        entry.subscriptions.swap_remove(index);", expect='no-alarm', note='HARMLESS: the order of subscriptions is not observable (the contract is over the multiset)')
mut('h-c11-insert-front', 'C11', 'src/pub.rs', "                    entry.subscriptions.push(Vec::from(&data[1..]));", "                    entry.subscriptions.insert(0, Vec::from(&data[1..]));", expect='no-alarm', note='HARMLESS: order not observable')
mut('h-c11-rename', 'C11', 'src/pub.rs', "sub_filter", "prefix", expect='no-alarm', note='HARMLESS rename (the loop hints name the loop variable: undecided at worst)')
mut('c13-stop-at-first-error', 'C13', 'src/sub.rs', "            let sent = peer\n                .send_queue\n                .send(Message::Message(message.clone()))\n                .await;\n            if let Err(e) = sent {\n                if result.is_ok() {\n                    result = Err(e.into());\n                }\n            }\n", "            peer.send_queue\n                .send(Message::Message(message.clone()))\n                .await?;\n", note='F7 returns: the traversal stops at the first failing peer')
mut('c13-announce-every-call', 'C13', 'src/sub.rs', "        if !self.backend.subs.lock().insert(subscription.to_string()) {\n            return Ok(());\n        }\n", "        self.backend.subs.lock().insert(subscription.to_string());\n", note='F8 returns (subscribe half): a repeated subscribe is announced again')
mut('c13-unsub-every-call', 'C13', 'src/sub.rs', "        if !self.backend.subs.lock().remove(subscription) {\n            return Ok(());\n        }\n", "        self.backend.subs.lock().remove(subscription);\n", note='F8 returns (unsubscribe half): cancelling a topic that is not subscribed is announced')
mut('c13-unsub-wrong-tag', 'C13', 'src/sub.rs', "        self.process_subs(subscription, SubBackendMsgType::UNSUBSCRIBE)", "        self.process_subs(subscription, SubBackendMsgType::SUBSCRIBE)", note='unsubscribe announces a SUBSCRIBE')
mut('c13-late-joiner-untold', 'C13', 'src/sub.rs', "        for message in subs_msgs {\n            send_queue.send(Message::Message(message)).await.unwrap();\n        }\n", "        let _ = subs_msgs;\n", expect='any-nonzero', note='a late joiner is registered without being sent the current set (the loop the invariants are attached to is gone: undecided acceptable)')
mut('c13-late-joiner-one-short', 'C13', 'src/sub.rs', "        for message in subs_msgs {", "        for message in subs_msgs.into_iter().skip(1) {", expect='any-nonzero', note='a late joiner misses one topic (skip adapter outside the subset: undecided acceptable)')
mut('c13-subscribe-skips-announce', 'C13', 'src/sub.rs', "        self.process_subs(subscription, SubBackendMsgType::SUBSCRIBE)\n            .await\n", "        let _ = subscription;\n        Ok(())\n", note='subscribe only updates the set: registered peers are never told')
mut('c13-send-feed-only', 'C13', 'src/sub.rs', "                .send(Message::Message(message.clone()))\n                .await;", "                .feed(Message::Message(message.clone()))\n                .await;", note='announcement buffered but never flushed')
mut('h-c13-rename-result', 'C13', 'src/sub.rs', "sent", "outcome", expect='no-alarm', note='HARMLESS rename')
# ---------------------------------------------------------------- C05 exactly once, whole, in order (sequential scope)
mut('c05-fq-pending-dropped', 'C05', 'src/fair_queue.rs', "                Poll::Pending => {\n                    let mut inner = fair_queue.inner.lock();\n                    inner.streams.insert(event.key, io_stream);\n                    continue;", "                Poll::Pending => {\n                    continue;", note='a stream that is merely not ready is dropped: every later message of that peer is lost')
mut('c05-fq-item-not-put-back', 'C05', 'src/fair_queue.rs', "                    inner.streams.insert(event.key, io_stream);\n                    return Poll::Ready(item);", "                    return Poll::Ready(item);", note='the stream that yielded an item is not put back')
mut('c05-fq-item-dropped', 'C05', 'src/fair_queue.rs', "                Poll::Ready(Some(res)) => {\n                    let item = Some((event.key.clone(), res));", "                Poll::Ready(Some(res)) if fair_queue.block_on_no_clients => {\n                    let item = Some((event.key.clone(), res));", expect='any-nonzero', note='an item read from a stream is thrown away for non-blocking queues (match no longer exhaustive for Verus or post fails)')
mut('c05-fq-remove-other', 'C05', 'src/fair_queue.rs', "        self.streams.remove(k);", "        self.streams.remove(k);\n        self.ready_queue.pop();", note='removing one peer also discards another peer\'s pending wake-up')
mut('c05-pull-drops-first', 'C05', 'src/pull.rs', "                Some((_peer_id, Ok(Message::Message(message)))) => {\n                    return Ok(message);", "                Some((_peer_id, Ok(Message::Message(message)))) => {\n                    if message.is_empty() { continue; }\n                    return Ok(message);", expect='any-nonzero', note='PULL silently discards some message items')
mut('c05-dealer-swallows-after-command', 'C05', 'src/dealer.rs', "                Some((_peer_id, Ok(_))) => {", "                Some((_peer_id, Ok(_))) => {\n                    let _ = self.fair_queue.next().await;", note='DEALER consumes one more item after a command and throws it away')
mut('c05-router-drops-frame', 'C05', 'src/router.rs', "                    message.push_front(peer_id.into());\n                    return Ok(message);", "                    let _ = message.pop_front();\n                    message.push_front(peer_id.into());\n                    return Ok(message);", note='ROUTER replaces the first frame by the identity: message not whole')
mut('c05-decode-merges', 'C05', 'src/codec/zmq_codec.rs', "                        Some(v) => v.push_back(data.freeze()),", "                        Some(v) => *v = ZmqMessage::from(data.freeze()),", note='earlier frames of a multipart message are dropped (split message)')
mut('c05-wake-dropped-while-checked-out', 'C05', 'src/fair_queue.rs', "    K: Clone + Send + Sync,\n{\n    fn wake_by_ref(arc_self: &Arc<Self>) {\n        let mut inner = arc_self.inner.lock();\n", "    K: Clone + Eq + Hash + Send + Sync,\n{\n    fn wake_by_ref(arc_self: &Arc<Self>) {\n        let mut inner = arc_self.inner.lock();\n        if !inner.streams.contains_key(&arc_self.event.key) {\n            return;\n        }\n", note='seeded C05-A: a wake-up is ignored while the stream is checked out of the map (impl header changes too: tolerant anchor)')
mut('c05-decode-eof-override', 'C05', 'src/codec/zmq_codec.rs', "impl Encoder for ZmqCodec {", "impl ZmqCodec {\n    fn partial(&mut self) -> Option<Message> { self.buffered_message.take().map(Message::Message) }\n}\n\nimpl Encoder for ZmqCodec {", expect='no-alarm', note='HARMLESS: an unused private helper next to the trait impls')
mut('c05-decode-eof-surfaces-partial', 'C05', 'src/codec/zmq_codec.rs', "    type Item = Message;\n\n    fn decode(", "    type Item = Message;\n\n    fn decode_eof(&mut self, src: &mut BytesMut) -> Result<Option<Self::Item>, Self::Error> {\n        match self.decode(src)? {\n            Some(m) => Ok(Some(m)),\n            None => { src.clear(); Ok(self.buffered_message.take().map(Message::Message)) }\n        }\n    }\n\n    fn decode(", expect='any-nonzero', note='seeded C05-D: a decode_eof override surfaces a message cut short by a disconnect; the contracts assume the trait default -> undecided (closed-impl guard), never exit 0')
mut('h-c05-fq-rename', 'C05', 'src/fair_queue.rs', 'io_stream', 'checked_out', expect='no-alarm', note='HARMLESS rename')
mut('h-c05-pull-rename', 'C05', 'src/pull.rs', "Some((_peer_id, Ok(Message::Message(message)))) => {\n                    return Ok(message);", "Some((_from, Ok(Message::Message(whole)))) => {\n                    return Ok(whole);", expect='no-alarm', note='HARMLESS rename')
mut('c16-dealer-not-forgotten', 'C16', 'src/dealer.rs', "                    self.backend.peer_disconnected(&peer_id);\n", "", note='F9 returns: DEALER reports a failed peer without forgetting it')
mut('c16-rep-read-half-kept', 'C16', 'src/rep.rs', "        self.fair_queue_inner.lock().remove(peer_id);\n", "", note='F10 returns: REP leaves the read half queued')
mut('c16-sub-read-half-kept', 'C16', 'src/sub.rs', "        if let Some(inner) = &self.fair_queue_inner {\n            inner.lock().remove(peer_id);\n        }\n", "", note='F11 returns: SUB leaves the read half queued')
mut('c16-pull-not-forgotten', 'C16', 'src/pull.rs', "                    self.backend.peer_disconnected(&peer_id);\n", "", note='PULL reports a failed peer without forgetting it')
mut('c16-generic-keeps-entry', 'C16', 'src/backend.rs', "    fn peer_disconnected(&self, peer_id: &PeerIdentity) {\n        self.peers.remove_sync(peer_id);\n", "    fn peer_disconnected(&self, peer_id: &PeerIdentity) {\n", note='the table entry (write half) of a failed peer survives')
mut('c16-xpub-wrong-peer', 'C16', 'src/xpub.rs', "        self.fair_queue_inner.lock().remove(peer_id);", "        let _ = &self.fair_queue_inner;", note='XPUB leaves the read half queued')
mut('c16-sub-forgets-everyone', 'C16', 'src/sub.rs', "        self.peers.remove_sync(peer_id);\n        // Also drop", "        self.peers.clear_sync();\n        // Also drop", note='one failed peer makes SUB forget every peer (isolation)')
mut('c16-req-not-forgotten', 'C16', 'src/req.rs', "                            drop(peer);\n                            self.backend.peer_disconnected(&peer_id);\n                            Err(error.into())", "                            Err(error.into())", note='F12 returns (error arm): REQ keeps a peer whose read failed')
mut('c16-req-eof-not-forgotten', 'C16', 'src/req.rs', "                            drop(peer);\n                            self.backend.peer_disconnected(&peer_id);\n                            Err(ZmqError::NoMessage)", "                            Err(ZmqError::NoMessage)", note='F12 returns (end-of-stream arm)')
mut('c16-req-requeues-dead', 'C16', 'src/req.rs', "            if let Some(mut peer) = self.backend.peers.get_async(&next_peer_id).await {\n                self.backend.round_robin.push(next_peer_id.clone());\n", "            self.backend.round_robin.push(next_peer_id.clone());\n            if let Some(mut peer) = self.backend.peers.get_async(&next_peer_id).await {\n", note='seeded C16-J: identities of forgotten peers stay in the rotation; a send with no live peer left spins for ever')
mut('h-c16-rename', 'C16', 'src/dealer.rs', "Some((peer_id, Err(e)))", "Some((failed_peer, Err(e)))", expect='no-alarm', more=[("self.backend.peer_disconnected(&peer_id);", "self.backend.peer_disconnected(&failed_peer);")], note='HARMLESS rename')
mut('h-req-closure', 'C07', 'src/req.rs', "        if self.current_request.is_some() {", "        if self.current_request.as_ref().map(|p| true).unwrap_or(false) {", expect='no-alarm', note='HARMLESS but through an un-annotated closure: Verus forgets the result, so the failed obligations must be reported as undecided (shape guard), never as a violation')
mut('h-rr-extra-loop', 'C10', 'src/backend.rs', "        // In normal scenario this will always be only 1 iteration", "        let mut spins = 0u8;\n        while spins < 3 {\n            spins += 1;\n        }\n        // In normal scenario this will always be only 1 iteration", expect='no-alarm', note='HARMLESS extra loop the contracts carry no invariant for: undecided at worst')


def run_one(m, keep=False):
    t0 = time.time()
    d = tempfile.mkdtemp(prefix='zmq-selftest-', dir='/var/tmp')
    wt = os.path.join(d, 'repo')
    try:
        for attempt in range(8):
            # concurrent `git worktree add` calls contend for a lock in /repo/.git: retry
            wr = subprocess.run(['git', '-C', REPO, 'worktree', 'add', '-q', '--detach', wt, 'HEAD'], capture_output=True)
            if wr.returncode == 0:
                break
            time.sleep(0.5 + attempt)
        else:
            raise RuntimeError('git worktree add failed: ' + wr.stderr.decode()[:300])
        # the working tree of /repo may carry uncommitted edits: copy tracked sources over
        subprocess.run(['rsync', '-a', '--exclude', 'target', '--exclude', '.git', REPO + '/src/', wt + '/src/'], check=True)
        p = os.path.join(wt, m['file'])
        s = open(p).read()
        if s.count(m['old']) < 1:
            return m, 'catalogue-stale', 'pattern not found in %s' % m['file'], time.time() - t0, ''
        s = s.replace(m['old'], m['new']) if m['id'].startswith('h-') or m['id'] in ('c01-boundary-256-both',) else s.replace(m['old'], m['new'], 1)
        for (o2, n2) in m.get('more', []):
            if s.count(o2) < 1:
                return m, 'catalogue-stale', 'pattern not found in %s' % m['file'], time.time() - t0, ''
            s = s.replace(o2, n2, 1)
        open(p, 'w').write(s)
        env = dict(os.environ, VERIF_REPO=wt, VERIF_EVIDENCE_DIR=os.path.join(d, 'evidence'), VERIF_REPLAY_DIR=os.path.join(d, 'replay'),
                   VERIF_WORK_DIR=os.path.join(d, 'work'))
        if not m['kani']:
            env['VERIF_KANI'] = 'off'
        r = subprocess.run([os.path.join(VERIF, 'check'), m['prop'], 'quick'], capture_output=True, text=True, env=env, timeout=3000)
        out = r.stdout + r.stderr
        code = r.returncode
        if m['expect'] == 'violation':
            ok = code == 1 and 'VIOLATION property=%s' % m['prop'] in out
        elif m['expect'] == 'ok':
            ok = code == 0
        elif m['expect'] == 'no-alarm':
            ok = code in (0, 2) and 'VIOLATION' not in out
        else:
            ok = code != 0
        return m, ('pass' if ok else 'MISS'), 'exit %d' % code, time.time() - t0, out
    except Exception as e:
        return m, 'error', repr(e), time.time() - t0, ''
    finally:
        subprocess.run(['git', '-C', REPO, 'worktree', 'remove', '--force', wt], capture_output=True)
        shutil.rmtree(d, ignore_errors=True)


def main(argv):
    sel = [m for m in M if not argv or m['id'] in argv or m['prop'] in argv]
    t0 = time.time()
    res = []
    # Kani-using entries run one at a time (shared cargo target dir); the rest in parallel
    par = [m for m in sel if not m['kani']]
    ser = [m for m in sel if m['kani']]
    with cf.ThreadPoolExecutor(max_workers=5) as ex:
        for r in ex.map(run_one, par):
            res.append(r)
            print('%-32s %-4s expect=%-12s %-16s %s (%.0fs)' % (r[0]['id'], r[0]['prop'], r[0]['expect'], r[1], r[2], r[3]), flush=True)
    for m in ser:
        r = run_one(m)
        res.append(r)
        print('%-32s %-4s expect=%-12s %-16s %s (%.0fs)' % (r[0]['id'], r[0]['prop'], r[0]['expect'], r[1], r[2], r[3]), flush=True)
    bad = [r for r in res if r[1] != 'pass']
    out = {'ran': len(res), 'passed': len(res) - len(bad), 'wall_s': round(time.time() - t0, 1),
           'results': [{'id': r[0]['id'], 'property': r[0]['prop'], 'expect': r[0]['expect'], 'outcome': r[1], 'detail': r[2], 'note': r[0]['note'],
                        'lines': [l for l in r[4].split('\n') if l.startswith(('VIOLATION', 'UNDECIDED'))][:4]} for r in res]}
    os.makedirs(os.path.join(VERIF, 'selftest'), exist_ok=True)
    json.dump(out, open(os.path.join(VERIF, 'selftest', 'last_run.json'), 'w'), indent=1)
    print('selftest: %d/%d as expected in %.0fs' % (len(res) - len(bad), len(res), time.time() - t0))
    for r in bad:
        print('--- %s (%s): %s %s' % (r[0]['id'], r[0]['prop'], r[1], r[2]))
        print('\n'.join(r[4].split('\n')[-8:]))
    return 0 if not bad else 2


if __name__ == '__main__':
    sys.exit(main(sys.argv[1:]))
