#!/usr/bin/env python3
"""writes MANIFEST.json from tools/props.py + the texts below (kept together so they cannot drift)"""
import json, os, sys
HERE = os.path.dirname(os.path.abspath(__file__))
sys.path.insert(0, HERE)
import props as P
import manifest_texts as T

VERIF = os.path.dirname(HERE)
checks = []
for pid in sorted(P.PROPS):
    t = T.CHECKS[pid]
    checks.append({
        'property_id': pid,
        'quick_cmd': './check %s quick' % pid,
        'thorough_cmd': './check %s thorough' % pid,
        'evidence_file': '/verif/evidence/%s.json' % pid,
        'replay_cmd_template': './check replay {path}',
        'engine': 'contracts',
        'level_claimed': {'category': 'proof', 'text': t['text'], 'design_ref': t['design_ref']},
        'level_note': t['note'],
        'technique': t['technique'],
    })
m = {
    'version': 1,
    'setup_cmd': './setup.sh',
    'hooks': {
        'guard': 'cfg(kani)',
        'enable': 'set only by the Kani compiler: `ZEROMQ_VERIF_KANI=/verif/kani/harnesses.rs cargo kani --harness <h>` run in /repo compiles the harness file into the crate through `#[cfg(kani)] mod __verif_kani { include!(env!("ZEROMQ_VERIF_KANI")); }` in src/lib.rs; the Verus units need no hook (they extract the source text)',
        'baseline_off_cmd': 'cd /repo && cargo test --workspace --no-fail-fast --offline',
        'source_commits': T.HOOK_COMMITS,
        'add_only': True,
    },
    'engines': [{
        'name': 'contracts', 'path': '/verif/check',
        'serves_properties': sorted(P.PROPS),
        'kind_free_text': 'contract-based deductive verification of the real code: functions extracted mechanically from /repo on every run (tools/extract.py), contracts spliced from units/*.rs, discharged by Verus/z3; Kani/CBMC for the functions Verus cannot parse (complete where loop-free over a finite domain, otherwise labelled bounded)',
    }],
    'checks': checks,
    'notes': T.NOTES,
    'not_applicable': [{'property_id': k, 'reason': v} for k, v in sorted(T.NOT_APPLICABLE.items()) if k not in P.PROPS],
}
json.dump(m, open(os.path.join(VERIF, 'MANIFEST.json'), 'w'), indent=1)
print('MANIFEST.json written:', len(checks), 'checks,', len(m['not_applicable']), 'not applicable')
