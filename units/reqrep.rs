// Verus unit `reqrep`: sequential skeletons of ReqSocket / RepSocket send + recv and of the REQ backend
// (serves C07 C08 C14, and C10 for REQ's own rotation)
//@@ state-fields: current_request envelope
//@@ define STUB_ITER
#![feature(allocator_api)]
#![allow(unused_imports, dead_code, unused_variables, unused_mut, unused_parens)]
use vstd::prelude::*;
use bytes::{Buf, BufMut, Bytes, BytesMut};
use std::collections::vec_deque::VecDeque;
use std::collections::HashMap;
use std::convert::{From, TryFrom, TryInto};
use vstd::std_specs::iter::IteratorSpec;
use std::io::ErrorKind;
verus! {
global size_of usize == 8;
//@@ include prelude/bytes_specs.rs
//@@ include prelude/std_specs.rs
//@@ include prelude/message_items.rs
//@@ include prelude/enum_iter.rs
//@@ include prelude/codec_types.rs
//@@ include prelude/core_types.rs
//@@ include prelude/socket_standins.rs

//@ item src/lib.rs :: enum SocketType
//@ end
//@ item src/lib.rs :: struct SocketOptions
//@ end
//@ item src/codec/framed.rs :: struct FramedIo
//@ end
impl FramedIo {
//@ item src/codec/framed.rs :: impl FramedIo / fn into_parts
//@ ret r
//@ spec
//@|        ensures r.0 == self.read_half, r.1 == self.write_half,
//@ end
}

// =================================================================================
// REQ  (src/req.rs)
// =================================================================================
//@@ consts src/req.rs
//@@ consts src/rep.rs
//@ item src/util.rs :: struct Peer
//@ end
//@ item src/req.rs :: struct ReqSocketBackend
//@ end
//@ item src/req.rs :: struct ReqSocket
//@ end

/// index of the first identity of the rotation that is still in the peer table (q.len() if none)
pub open spec fn first_live<V>(q: Seq<PeerIdentity>, t: Map<PeerIdentity, V>) -> int
    decreases q.len()
{
    if q.len() == 0 { 0 }
    else if t.contains_key(q[0]) { 0 }
    else { 1 + first_live(q.subrange(1, q.len() as int), t) }
}
pub proof fn lemma_first_live_bounds<V>(q: Seq<PeerIdentity>, t: Map<PeerIdentity, V>)
    ensures 0 <= first_live(q, t) <= q.len(),
        first_live(q, t) < q.len() ==> t.contains_key(q[first_live(q, t)]),
        forall|i: int| 0 <= i < first_live(q, t) ==> !t.contains_key(#[trigger] q[i]),
    decreases q.len()
{
    if q.len() > 0 && !t.contains_key(q[0]) {
        let q1 = q.subrange(1, q.len() as int);
        lemma_first_live_bounds(q1, t);
        assert forall|i: int| 0 <= i < first_live(q, t) implies !t.contains_key(#[trigger] q[i]) by {
            if i > 0 { assert(q[i] == q1[i - 1]); }
        }
    }
}

/// the error hands the application's message back with the same frames
pub open spec fn returned_intact(r: ZmqResult<()>, frames: Seq<Bytes>) -> bool {
    r is Err && r->Err_0 is ReturnToSender && r->Err_0->ReturnToSender_message.fr() == frames
}
/// `m` is `frames` behind exactly one empty delimiter frame
pub open spec fn is_delimited(m: Message, frames: Seq<Bytes>) -> bool {
    &&& m is Message
    &&& m->Message_0.fr().len() == frames.len() + 1
    &&& b_view(&m->Message_0.fr()[0]).len() == 0
    &&& m->Message_0.fr().subrange(1, m->Message_0.fr().len() as int) =~= frames
}
/// tables agree everywhere except (possibly) at p
pub open spec fn same_except<V>(t0: Map<PeerIdentity, V>, t1: Map<PeerIdentity, V>, p: PeerIdentity) -> bool {
    &&& t1.dom() =~= t0.dom()
    &&& forall|q: PeerIdentity| t0.contains_key(q) && q != p ==> #[trigger] t1[q] == t0[q]
}

impl ReqSocket {
//@ item src/req.rs :: impl SocketSend for ReqSocket / fn send
//@ name ReqSocket::send
//@ inherent
//@ attr
//@|    #[verifier::loop_isolation(false)]
//@ ret r
//@ spec
//@|        ensures
//@|            // C08: out of turn -> refused, message handed back intact, nothing written, state unchanged
//@|            old(self).current_request is Some ==> returned_intact(r, message.fr()) && *final(self) == *old(self),
//@|            // C10: nobody to send to -> refused, message intact, nothing written
//@|            old(self).current_request is None && first_live(old(self).backend.round_robin@, old(self).backend.peers@) == old(self).backend.round_robin@.len()
//@|                ==> returned_intact(r, message.fr()) && final(self).backend.peers@ == old(self).backend.peers@ && final(self).current_request is None,
//@|            // otherwise the first live peer p of the rotation is chosen ...
//@|            old(self).current_request is None && first_live(old(self).backend.round_robin@, old(self).backend.peers@) < old(self).backend.round_robin@.len()
//@|                ==> req_sent_to(*old(self), *final(self), r, message.fr(),
//@|                        old(self).backend.round_robin@[first_live(old(self).backend.round_robin@, old(self).backend.peers@)]),
//@ hint start
//@|        let ghost msg0 = message.fr();
//@|        let ghost rr0 = self.backend.round_robin@;
//@|        let ghost t0 = self.backend.peers@;
//@|        proof { lemma_first_live_bounds(rr0, t0); }
//@ loop 1
//@|            invariant
//@|                self.current_request is None,
//@|                self.backend.peers@ == t0,
//@|                message.fr() == msg0,
//@|                self.backend.round_robin@.len() <= rr0.len(),
//@|                self.backend.round_robin@ == rr0.subrange(rr0.len() - self.backend.round_robin@.len(), rr0.len() as int),
//@|                first_live(rr0, t0) == (rr0.len() - self.backend.round_robin@.len()) + first_live(self.backend.round_robin@, t0),
//@|            decreases self.backend.round_robin@.len(),
//@ end

//@ item src/req.rs :: impl SocketRecv for ReqSocket / fn recv
//@ name ReqSocket::recv
//@ inherent
//@ ret r
//@ spec
//@|        ensures
//@|            final(self).backend.round_robin@ == old(self).backend.round_robin@,
//@|            // C08: out of turn -> error, state unchanged
//@|            old(self).current_request is None ==> r is Err && *final(self) == *old(self),
//@|            // the peer has gone: error, the request is over, nothing else changes
//@|            old(self).current_request is Some && !old(self).backend.peers@.contains_key(old(self).current_request->Some_0)
//@|                ==> r is Err && final(self).current_request is None && final(self).backend.peers@ == old(self).backend.peers@,
//@|            // otherwise exactly one item is read from THAT peer, and it alone decides
//@|            old(self).current_request is Some && old(self).backend.peers@.contains_key(old(self).current_request->Some_0)
//@|                ==> req_received_from(*old(self), *final(self), r, old(self).current_request->Some_0),
//@ await 1
//@|        self.current_request == old(self).current_request
//@|        && self.backend.peers@ == old(self).backend.peers@ && self.backend.round_robin@ == old(self).backend.round_robin@
//@ await 2
//@|        self.current_request == old(self).current_request
//@ await-try 2
//@|        self.backend.peers@.dom() =~= old(self).backend.peers@.dom()
//@ end
}

impl ReqSocketBackend {
//@ item src/req.rs :: impl SocketBackend for ReqSocketBackend / fn socket_type
//@ name ReqSocketBackend::socket_type
//@ inherent
//@ ret r
//@ spec
//@|        ensures r is REQ,
//@ end
// C09/C10: a new peer's write half is stored under, and enters the rotation with, the SAME identity
//@ item src/req.rs :: impl MultiPeerBackend for ReqSocketBackend / fn peer_connected
//@ name ReqSocketBackend::peer_connected
//@ inherent
//@ receiver-mut
//@ spec
//@|        ensures
//@|            final(self).peers@ == old(self).peers@.insert(*peer_id, Peer { _identity: *peer_id, send_queue: io.write_half, recv_queue: io.read_half }),
//@|            final(self).round_robin@ == old(self).round_robin@.push(*peer_id),
//@ end
//@ item src/req.rs :: impl MultiPeerBackend for ReqSocketBackend / fn peer_disconnected
//@ name ReqSocketBackend::peer_disconnected
//@ inherent
//@ receiver-mut
//@ spec
//@|        ensures
//@|            final(self).peers@ == old(self).peers@.remove(*peer_id),
//@|            final(self).round_robin@ == old(self).round_robin@,
//@ end
}

// =================================================================================
// REP  (src/rep.rs)
// =================================================================================
//@ item src/rep.rs :: struct RepPeer
//@ end
//@ item src/rep.rs :: struct RepSocketBackend
//@ end
//@ item src/rep.rs :: struct RepSocket
//@ end

impl RepSocketBackend {
// C01: the READY a socket emits names ITS OWN type
//@ item src/rep.rs :: impl SocketBackend for RepSocketBackend / fn socket_type
//@ name RepSocketBackend::socket_type
//@ inherent
//@ ret r
//@ spec
//@|        ensures r is REP,
//@ end
    // stand-in for `SocketBackend::monitor(&self) -> &Mutex<..>` (shared borrow of interior-mutable data -> &mut, D7)
    fn monitor(&mut self) -> (r: &mut Mutex<Option<mpsc::Sender<SocketEvent>>>)
        ensures *r == old(self).socket_monitor, final(self).socket_monitor == *final(r),
            final(self).peers == old(self).peers, final(self).fair_queue_inner == old(self).fair_queue_inner, final(self).socket_options == old(self).socket_options,
    { &mut self.socket_monitor }

//@ item src/rep.rs :: impl MultiPeerBackend for RepSocketBackend / fn peer_disconnected
//@ name RepSocketBackend::peer_disconnected
//@ inherent
//@ receiver-mut
//@ spec
//@|        ensures final(self).peers@ == old(self).peers@.remove(*peer_id),
//@|            // C16: the queued read half is dropped as well
//@|            final(self).fair_queue_inner.inner.streams@ == old(self).fair_queue_inner.inner.streams@.remove(*peer_id),
//@ end

//@ item src/rep.rs :: impl MultiPeerBackend for RepSocketBackend / fn peer_connected
//@ name RepSocketBackend::peer_connected
//@ inherent
//@ receiver-mut
//@ spec
//@|        ensures
//@|            final(self).peers@ == old(self).peers@.insert(*peer_id, RepPeer { _identity: *peer_id, send_queue: io.write_half }),
//@|            final(self).fair_queue_inner.inner.streams@ == old(self).fair_queue_inner.inner.streams@.insert(*peer_id, io.read_half),
//@ end
}

/// first empty frame of a request: index + 1, or `dflt` when there is none  (A-REGION-1)
pub open spec fn delimiter_end(fr: Seq<Bytes>, dflt: int) -> int
    decreases fr.len()
{
    if fr.len() == 0 { dflt }
    else if b_view(&fr[0]).len() == 0 { 1 }
    else {
        let r = delimiter_end(fr.subrange(1, fr.len() as int), dflt - 1);
        1 + r
    }
}
/// no frame before position k is the (empty) delimiter: the search result is k + (search in the rest)
pub proof fn lemma_delimiter_skip(fr: Seq<Bytes>, k: int, dflt: int)
    requires 0 <= k <= fr.len(), forall|j: int| 0 <= j < k ==> b_view(&#[trigger] fr[j]).len() != 0,
    ensures delimiter_end(fr, dflt) == k + delimiter_end(fr.subrange(k, fr.len() as int), dflt - k),
    decreases k
{
    if k > 0 {
        let t = fr.subrange(1, fr.len() as int);
        assert forall|j: int| 0 <= j < k - 1 implies b_view(&#[trigger] t[j]).len() != 0 by { assert(t[j] == fr[j + 1]); }
        lemma_delimiter_skip(t, k - 1, dflt - 1);
        assert(t.subrange(k - 1, t.len() as int) =~= fr.subrange(k, fr.len() as int));
    } else {
        assert(fr.subrange(0, fr.len() as int) =~= fr);
    }
}

impl RepSocket {
//@ item src/rep.rs :: impl SocketSend for RepSocket / fn send
//@ name RepSocket::send
//@ inherent
//@ ret r
//@ spec
//@|        ensures
//@|            // C08: no request to answer -> refused, message intact, nothing written, state unchanged
//@|            old(self).current_request is None ==> returned_intact(r, message.fr()) && *final(self) == *old(self),
//@|            // the requester has gone: refused, message intact, nothing written
//@|            old(self).current_request is Some && !old(self).backend.peers@.contains_key(old(self).current_request->Some_0)
//@|                ==> returned_intact(r, message.fr()) && final(self).backend.peers@ == old(self).backend.peers@ && final(self).current_request is None,
//@|            // otherwise the reply goes to exactly the connection the request came from
//@|            old(self).current_request is Some && old(self).backend.peers@.contains_key(old(self).current_request->Some_0)
//@|                ==> rep_replied_to(*old(self), *final(self), r, message.fr(), old(self).current_request->Some_0),
//@ end

//@ item src/rep.rs :: impl SocketRecv for RepSocket / fn recv
//@ name RepSocket::recv
//@ inherent
//@ attr
//@|    #[verifier::loop_isolation(false)]
//@|    #[verifier::exec_allows_no_decreases_clause]
//@ ret r
//@ loop 2 it
//@|                            invariant_except_break
//@|                                it.seq() == Seq::new(m.fr().len(), |i: int| (i as usize, &m.fr()[i])),
//@|                                at == 1,
//@|                                forall|j: int| 0 <= j < it.index() ==> b_view(&#[trigger] m.fr()[j]).len() != 0,
//@|                            ensures
//@|                                1 <= at <= m.fr().len(),
//@ loopbody 2
//@|                            proof {
//@|                                assert(it.seq()[it.index() as int] == (index, frame));
//@|                                assert(index == it.index() && *frame == m.fr()[index as int]);
//@|                                if b_view(frame).len() == 0 {
//@|                                    lemma_delimiter_skip(m.fr(), index as int, 1);
//@|                                    assert(b_view(&m.fr().subrange(index as int, m.fr().len() as int)[0]).len() == 0);
//@|                                }
//@|                            }
//@ afterloop 2
//@|                        proof {
//@|                            if forall|j: int| 0 <= j < m.fr().len() ==> b_view(&#[trigger] m.fr()[j]).len() != 0 {
//@|                                lemma_delimiter_skip(m.fr(), m.fr().len() as int, 1);
//@|                            }
//@|                            assert(at == delimiter_end(m.fr(), 1));
//@|                        }
//@ spec
//@|        ensures
//@|            rep_received(*old(self), *final(self), r),
//@|            // C16: a peer whose failure this call reports is forgotten COMPLETELY - the queued read half goes too, so
//@|            // the same failure cannot be reported again; otherwise the queue keeps every stream
//@|            rep_forgets(*old(self), *final(self)),
//@ loop 1
//@|            invariant
//@|                self.envelope == old(self).envelope,
//@|                self.current_request == old(self).current_request,
//@|                self.backend.peers@ == old(self).backend.peers@,
//@|                self.backend.fair_queue_inner.inner.streams@ == old(self).backend.fair_queue_inner.inner.streams@,
//@|                self.fair_queue.log@.len() >= old(self).fair_queue.log@.len(),
//@|                self.fair_queue.log@.subrange(0, old(self).fair_queue.log@.len() as int) =~= old(self).fair_queue.log@,
//@|                // everything consumed so far was a non-message item REP skips by design
//@|                forall|i: int| old(self).fair_queue.log@.len() <= i < self.fair_queue.log@.len() ==> skipped_item(#[trigger] self.fair_queue.log@[i]),
//@ await *
//@|        self.envelope == old(self).envelope && self.current_request == old(self).current_request
//@|        && self.backend.peers@ == old(self).backend.peers@
//@|        && forall|i: int| old(self).fair_queue.log@.len() <= i < self.fair_queue.log@.len() ==> skipped_item(#[trigger] self.fair_queue.log@[i])
//@ end
}

/// a queue item REP (and the other receivers) ignore by design: a greeting or a command
pub open spec fn skipped_item(it: Option<(PeerIdentity, CodecResult<Message>)>) -> bool {
    it is Some && it->Some_0.1 is Ok && !(it->Some_0.1->Ok_0 is Message)
}
spec fn rep_replied_to(s0: RepSocket, s1: RepSocket, r: ZmqResult<()>, frames: Seq<Bytes>, p: PeerIdentity) -> bool {
    let t0 = s0.backend.peers@; let t1 = s1.backend.peers@;
    let env = match s0.envelope { Some(e) => e.fr(), None => Seq::<Bytes>::empty() };
    &&& s1.current_request is None
    &&& s1.envelope is None
    &&& same_except(t0, t1, p)
    &&& t1[p]._identity == t0[p]._identity
    // success <=> envelope ++ reply was written and flushed to p, and to p only
    &&& r is Ok ==> flushed_one(t0[p].send_queue, t1[p].send_queue, t1[p].send_queue.sent@.last())
            && t1[p].send_queue.sent@.last() is Message
            && t1[p].send_queue.sent@.last()->Message_0.fr() =~= env + frames
    &&& r is Err ==> t1[p].send_queue.sent@ == t0[p].send_queue.sent@
}
spec fn rep_forgets(s0: RepSocket, s1: RepSocket) -> bool {
    let last = s1.fair_queue.log@.last();
    let q0 = s0.backend.fair_queue_inner.inner.streams@; let q1 = s1.backend.fair_queue_inner.inner.streams@;
    if last is Some && last->Some_0.1 is Err { q1 == q0.remove(last->Some_0.0) } else { q1 == q0 }
}
spec fn rep_received(s0: RepSocket, s1: RepSocket, r: ZmqResult<ZmqMessage>) -> bool {
    let l0 = s0.fair_queue.log@; let l1 = s1.fair_queue.log@;
    let last = l1.last();
    // at least one item was consumed; all but the last were skippable non-message items
    &&& l1.len() > l0.len() && l1.subrange(0, l0.len() as int) =~= l0
    &&& forall|i: int| l0.len() <= i < l1.len() - 1 ==> skipped_item(#[trigger] l1[i])
    &&& !skipped_item(last)
    // a request
    &&& (last is Some && last->Some_0.1 is Ok) ==> {
            let p = last->Some_0.0;
            let fr = last->Some_0.1->Ok_0->Message_0.fr();
            let at = delimiter_end(fr, 1);
            &&& s1.backend.peers@ == s0.backend.peers@
            &&& r is Ok <==> (fr.len() >= 2 && at < fr.len())
            // C07: the application gets exactly the frames after the first empty delimiter, never zero frames;
            // the envelope (up to and including the delimiter) and the requester are remembered
            &&& r is Ok ==> r->Ok_0.fr() =~= fr.subrange(at, fr.len() as int) && r->Ok_0.fr().len() >= 1
                    && s1.envelope is Some && s1.envelope->Some_0.fr() =~= fr.subrange(0, at)
                    && s1.current_request == Some(p)
            &&& r is Err ==> s1.envelope == s0.envelope && s1.current_request == s0.current_request
        }
    // a failed connection: that peer is forgotten, the call fails, protocol state unchanged
    &&& (last is Some && last->Some_0.1 is Err) ==> r is Err && s1.backend.peers@ == s0.backend.peers@.remove(last->Some_0.0)
            && s1.envelope == s0.envelope && s1.current_request == s0.current_request
    &&& last is None ==> r is Err && s1.backend.peers@ == s0.backend.peers@
            && s1.envelope == s0.envelope && s1.current_request == s0.current_request
}

/// C07/C08/C10 for a successful pick of peer p by REQ send
spec fn req_sent_to(s0: ReqSocket, s1: ReqSocket, r: ZmqResult<()>, frames: Seq<Bytes>, p: PeerIdentity) -> bool {
    let t0 = s0.backend.peers@; let t1 = s1.backend.peers@;
    let rr0 = s0.backend.round_robin@;
    let k = first_live(rr0, t0);
    &&& t0.contains_key(p)
    // rotation: p goes to the back, vanished ids in front of it are dropped
    &&& s1.backend.round_robin@ =~= rr0.subrange(k + 1, rr0.len() as int).push(p)
    // exactly one connection is touched, and only its write half
    &&& same_except(t0, t1, p)
    &&& t1[p].recv_queue == t0[p].recv_queue
    &&& t1[p]._identity == t0[p]._identity
    // success <=> the whole message, behind exactly one empty delimiter, was written and flushed to p
    &&& r is Ok ==> s1.current_request == Some(p)
            && flushed_one(t0[p].send_queue, t1[p].send_queue, t1[p].send_queue.sent@.last())
            && is_delimited(t1[p].send_queue.sent@.last(), frames)
    &&& r is Err ==> s1.current_request is None && t1[p].send_queue.sent@ == t0[p].send_queue.sent@
}
/// C07/C08 for REQ recv from the peer p the outstanding request went to
spec fn req_received_from(s0: ReqSocket, s1: ReqSocket, r: ZmqResult<ZmqMessage>, p: PeerIdentity) -> bool {
    let t0 = s0.backend.peers@; let t1 = s1.backend.peers@;
    &&& s1.current_request is None
    &&& {
        // an item was read from that peer and it alone decides; every other entry is untouched
        ||| (same_except(t0, t1, p)
            && t1[p].send_queue == t0[p].send_queue
            && t1[p]._identity == t0[p]._identity
            && t1[p].recv_queue.log@.len() == t0[p].recv_queue.log@.len() + 1
            && t1[p].recv_queue.log@.subrange(0, t0[p].recv_queue.log@.len() as int) =~= t0[p].recv_queue.log@
            && item_read(t1[p].recv_queue.log@.last())
            && req_reply_ok(t1[p].recv_queue.log@.last(), r))
        // C16: the read failed (connection error or end of stream): the call fails and that peer - no other - is
        // forgotten, so that no later send is routed to the dead connection
        ||| (r is Err && t1 =~= t0.remove(p))
    }
}
/// the connection delivered something (a message, a command or a greeting): not an error, not the end of the stream
pub open spec fn item_read(item: Option<CodecResult<Message>>) -> bool { item is Some && item->Some_0 is Ok }
/// the reply is accepted iff it is a message of >= 2 frames whose first frame is the empty delimiter,
/// and then exactly that delimiter is removed
pub open spec fn req_reply_ok(item: Option<CodecResult<Message>>, r: ZmqResult<ZmqMessage>) -> bool {
    &&& r is Ok <==> (item is Some && item->Some_0 is Ok && item->Some_0->Ok_0 is Message
            && item->Some_0->Ok_0->Message_0.fr().len() >= 2 && b_view(&item->Some_0->Ok_0->Message_0.fr()[0]).len() == 0)
    &&& r is Ok ==> r->Ok_0.fr() =~= item->Some_0->Ok_0->Message_0.fr().subrange(1, item->Some_0->Ok_0->Message_0.fr().len() as int)
}

} // verus!
pub struct Uuid([u8; 16]);
impl Uuid {
    pub fn new_v4() -> Self { Uuid([0; 16]) }
    pub fn as_bytes(&self) -> &[u8; 16] { &self.0 }
}
fn main() {}
