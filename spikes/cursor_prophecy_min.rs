use vstd::prelude::*;
verus! {
pub struct Cur<'a> { pub m: &'a mut Vec<u64>, pub i: usize }
#[verifier::external_body]
fn begin<'a>(v: &'a mut Vec<u64>) -> (r: Cur<'a>)
    ensures *r.m == *old(v), *final(r.m) == *final(v), r.i == 0
{ unimplemented!() }
#[verifier::external_body]
fn step<'a>(c: Cur<'a>) -> (r: Option<Cur<'a>>)
    ensures
        r matches Some(n) ==> *n.m == *old(c.m) && *final(n.m) == *final(c.m) && n.i == c.i + 1 && n.i < old(c.m)@.len(),
        r is None ==> *final(c.m) == *old(c.m) && c.i + 1 >= old(c.m)@.len(),
{ unimplemented!() }
#[verifier::external_body]
fn bump<'a>(c: &mut Cur<'a>)
    requires old(c).i < old(c).m@.len()
    ensures final(c).i == old(c).i, final(c).m@ == old(c).m@.update(old(c).i as int, 7), *final(final(c).m) == *final(old(c).m)
{ unimplemented!() }

fn all7(v: &mut Vec<u64>)
    requires old(v)@.len() > 0
    ensures final(v)@.len() == old(v)@.len(), forall|j: int| 0 <= j < final(v)@.len() ==> final(v)@[j] == 7
{
    let ghost n = v@.len();
    let ghost vf = *final(v);
    let mut it = Some(begin(v));
    while let Some(mut c) = it
        invariant
            it matches Some(c) ==> c.i < c.m@.len() && c.m@.len() == n && (forall|j: int| 0 <= j < c.i ==> c.m@[j] == 7) && *final(c.m) == vf,
            it is None ==> vf@.len() == n && forall|j: int| 0 <= j < n ==> vf@[j] == 7,
        ensures it is None,
        decreases (if it is Some { n - it->Some_0.i } else { 0 })
    {
        bump(&mut c);
        it = step(c);
    }
    assert(it is None);
    assert(vf@.len() == n);
    assert(*final(v) == vf);
}
}
fn main(){}
