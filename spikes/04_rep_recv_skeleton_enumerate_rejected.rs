use vstd::prelude::*;
use bytes::{Buf, BufMut, Bytes, BytesMut};
use std::collections::VecDeque;
verus! {
global size_of usize == 8;

#[verifier::external_type_specification]
#[verifier::external_body]
pub struct ExBytes(Bytes);
pub uninterp spec fn b_view(b: &Bytes) -> Seq<u8>;
pub assume_specification[ Bytes::is_empty ](b: &Bytes) -> (r: bool)
    ensures r == (b_view(b).len() == 0);
pub assume_specification[ Bytes::new ]() -> (r: Bytes)
    ensures b_view(&r).len() == 0;

pub enum CodecError { Decode(&'static str) }
pub enum ZmqError {
    Codec(CodecError),
    Other(&'static str),
    NoMessage,
    ReturnToSender { reason: &'static str, message: ZmqMessage },
}
pub type ZmqResult<T> = Result<T, ZmqError>;
pub type CodecResult<T> = Result<T, CodecError>;

impl From<CodecError> for ZmqError {
    fn from(e: CodecError) -> Self { ZmqError::Codec(e) }
}

pub struct PeerIdentity(pub Bytes);
pub struct ZmqGreeting { pub v: u8 }
pub struct ZmqCommand { pub v: u8 }

// ---------- real message.rs text (subset) ----------
pub struct ZmqMessage {
    frames: VecDeque<Bytes>,
}

impl View for ZmqMessage {
    type V = Seq<Bytes>;
    closed spec fn view(&self) -> Seq<Bytes> { self.frames@ }
}

impl ZmqMessage {
    pub fn push_front(&mut self, frame: Bytes)
        ensures final(self)@ == seq![frame] + old(self)@
    {
        self.frames.push_front(frame);
    }

    pub fn pop_front(&mut self) -> (r: Option<Bytes>)
        ensures old(self)@.len() == 0 ==> r is None && final(self)@ == old(self)@,
                old(self)@.len() > 0 ==> r == Some(old(self)@[0]) && final(self)@ == old(self)@.subrange(1, old(self)@.len() as int)
    {
        self.frames.pop_front()
    }

    pub fn iter(&self) -> std::collections::vec_deque::Iter<'_, Bytes> {
        self.frames.iter()
    }

    pub fn len(&self) -> (r: usize)
        ensures r == self@.len()
    {
        self.frames.len()
    }

    pub fn split_off(&mut self, at: usize) -> (r: ZmqMessage)
        requires at <= old(self)@.len()
        ensures final(self)@ == old(self)@.subrange(0, at as int), r@ == old(self)@.subrange(at as int, old(self)@.len() as int)
    {
        let frames = self.frames.split_off(at);
        ZmqMessage { frames }
    }
}

pub enum Message {
    Greeting(ZmqGreeting),
    Command(ZmqCommand),
    Message(ZmqMessage),
}

// ---------- assumed stubs for awaited calls ----------
#[verifier::external_body]
pub struct FairQueue { x: u8 }
pub type QItem = (PeerIdentity, CodecResult<Message>);
impl FairQueue {
    pub uninterp spec fn log(&self) -> Seq<Option<QItem>>;
    #[verifier::external_body]
    pub fn next(&mut self) -> (r: Option<QItem>)
        ensures final(self).log() == old(self).log().push(r)
    { unimplemented!() }
}
#[verifier::external_body]
pub struct RepSocketBackend { x: u8 }
impl RepSocketBackend {
    #[verifier::external_body]
    pub fn peer_disconnected(&self, peer_id: &PeerIdentity) { }
}

pub struct RepSocket {
    backend: std::sync::Arc<RepSocketBackend>,
    envelope: Option<ZmqMessage>,
    current_request: Option<PeerIdentity>,
    fair_queue: FairQueue,
}

pub open spec fn first_empty(s: Seq<Bytes>, i: int) -> int
    decreases s.len() - i
{
    if i >= s.len() { -1 } else if b_view(&s[i]).len() == 0 { i } else { first_empty(s, i + 1) }
}

impl RepSocket {
    fn recv(&mut self) -> (r: ZmqResult<ZmqMessage>)
        ensures r matches Ok(data) ==> data@.len() >= 1
    {
        loop {
            match self.fair_queue.next() {
                Some((peer_id, Ok(message))) => match message {
                    Message::Message(mut m) => {
                        if m.len() < 2 {
                            return Err(ZmqError::Other("Invalid message format"));
                        }
                        let mut at = 1;
                        for (index, frame) in m.iter().enumerate() {
                            if frame.is_empty() {
                                // Include delimiter in envelope.
                                at = index + 1;
                                break;
                            }
                        }
                        let data = m.split_off(at);
                        self.envelope = Some(m);
                        self.current_request = Some(peer_id);
                        return Ok(data);
                    }
                    Message::Greeting(_) | Message::Command(_) => {
                        // Ignore non-message frames. REP sockets should only process actual messages.
                    }
                },
                Some((peer_id, Err(e))) => {
                    self.backend.peer_disconnected(&peer_id);
                    return Err(e.into());
                }
                None => {
                    return Err(ZmqError::NoMessage);
                }
            };
        }
    }
}

} // verus!
fn main() {}
