// ---- assumed specifications of std functions that vstd does not cover (TRUSTED) ----
pub assume_specification<T, A: std::alloc::Allocator> [std::collections::VecDeque::<T, A>::is_empty] (d: &std::collections::VecDeque<T, A>) -> (r: bool)
    ensures r == (d@.len() == 0);
pub assume_specification<T, A: std::alloc::Allocator> [std::collections::VecDeque::<T, A>::get] (d: &std::collections::VecDeque<T, A>, i: usize) -> (r: Option<&T>)
    ensures i < d@.len() ==> r == Some(&d@[i as int]),
            i >= d@.len() ==> r is None;
pub assume_specification<T, A: std::alloc::Allocator> [<std::collections::VecDeque<T, A> as core::convert::From<Vec<T, A>>>::from] (v: Vec<T, A>) -> (r: std::collections::VecDeque<T, A>)
    ensures r@ == v@;
pub assume_specification<T, E> [std::option::Option::<std::result::Result<T, E>>::transpose] (o: std::option::Option<std::result::Result<T, E>>) -> (r: std::result::Result<std::option::Option<T>, E>)
    ensures
        o is None ==> r == Ok::<Option<T>, E>(None),
        o matches Some(Ok(v)) ==> r == Ok::<Option<T>, E>(Some(v)),
        o matches Some(Err(e)) ==> r == Err::<Option<T>, E>(e);
/// what `HashMap::extend(source)` inserts, as a map (later pairs win); for a HashMap source it is its view
pub uninterp spec fn extend_source<K, V, T>(t: T) -> Map<K, V>;
pub broadcast axiom fn axiom_extend_source_hashmap<K, V, S>(h: std::collections::HashMap<K, V, S>)
    ensures #[trigger] extend_source::<K, V, std::collections::HashMap<K, V, S>>(h) == h@;
pub assume_specification<K: std::cmp::Eq + std::hash::Hash, V, S: std::hash::BuildHasher, A: std::alloc::Allocator, T: std::iter::IntoIterator<Item = (K, V)>>
    [<std::collections::HashMap<K, V, S, A> as std::iter::Extend<(K, V)>>::extend] (m: &mut std::collections::HashMap<K, V, S, A>, src: T)
    ensures
        vstd::std_specs::hash::obeys_key_model::<K>() && vstd::std_specs::hash::builds_valid_hashers::<S>()
            ==> final(m)@ == old(m)@.union_prefer_right(extend_source::<K, V, T>(src));
pub broadcast proof fn lemma_subrange_full<T>(s: Seq<T>)
    ensures #[trigger] s.subrange(0, s.len() as int) == s,
{
    assert(s.subrange(0, s.len() as int) =~= s);
}
/// pushing keeps the old elements (stated so that it fires whenever `s[i]` and `s.push(x)` are both around)
pub broadcast proof fn lemma_push_keeps<T>(s: Seq<T>, x: T, i: int)
    requires 0 <= i < s.len(),
    ensures #![trigger s.push(x), s[i]] s.push(x)[i] == s[i],
{}
pub broadcast proof fn lemma_push_last<T>(s: Seq<T>, x: T)
    ensures #![trigger s.push(x)] s.push(x)[s.len() as int] == x && s.push(x).len() == s.len() + 1,
{}
pub broadcast group group_push { lemma_push_keeps, lemma_push_last }
pub assume_specification<T: core::default::Default, E> [core::result::Result::<T, E>::unwrap_or_default] (r: core::result::Result<T, E>) -> (v: T)
    ensures r matches Ok(t) ==> v == t;

// ---- std functions behaviour-preserving rewrites reach for (vstd already specifies <[T]>::split_first / split_at) ----
pub assume_specification<T> [core::mem::drop::<T>] (x: T);
