use vstd::prelude::*;
use bytes::{Buf, BufMut, Bytes, BytesMut};
verus! {

#[verifier::external_type_specification]
#[verifier::external_body]
pub struct ExBytesMut(BytesMut);

#[verifier::external_type_specification]
#[verifier::external_body]
pub struct ExBytes(Bytes);

#[verifier::external_trait_specification]
#[verifier::external_trait_extension(BufSpec via BufSpecImpl)]
pub trait ExBuf {
    type ExternalTraitSpecificationFor: Buf;
    spec fn bview(&self) -> Seq<u8>;
    fn get_u8(&mut self) -> (r: u8)
        requires old(self).bview().len() >= 1
        ensures r == old(self).bview()[0], final(self).bview() == old(self).bview().subrange(1, old(self).bview().len() as int);
    fn remaining(&self) -> (r: usize)
        ensures r == self.bview().len();
}

pub uninterp spec fn bm_view(b: &BytesMut) -> Seq<u8>;

impl BufSpecImpl for BytesMut {
    open spec fn bview(&self) -> Seq<u8> { bm_view(self) }
}

pub assume_specification[ BytesMut::len ](b: &BytesMut) -> (r: usize)
    ensures r == bm_view(b).len();

fn hdr(src: &mut BytesMut) -> (r: Option<u8>)
    ensures r is Some ==> bm_view(old(src)).len() >= 1,
            r is Some ==> r->0 == bm_view(old(src))[0],
            r is None ==> bm_view(final(src)) == bm_view(old(src)),
{
    if src.len() < 1 {
        return None;
    }
    let flags = src.get_u8();
    Some(flags)
}

fn bad(src: &mut BytesMut) -> (r: u8)
{
    src.get_u8()
}

} // verus!
fn main() {}
