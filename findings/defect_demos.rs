// Demonstrations of the six defects F1..F6 (DESIGN.md section 5) against the REAL code.
// Not part of any check.  Usage (scratch copy of /repo, never /repo itself):
//   echo '#[cfg(test)] #[path = "/verif/findings/defect_demos.rs"] mod verif_defect_demos;' >> src/lib.rs
//   cargo test --offline --lib verif_defect_demos -- --test-threads 1
// Every test FAILS (or aborts the process: f4) on the pinned tree and PASSES after the `fix:` commits.
use crate::codec::{Message, ZmqCodec};
use crate::prelude::*;
use crate::*;
use asynchronous_codec::Decoder;
use bytes::BytesMut;
use std::convert::TryFrom;
use std::panic::{catch_unwind, AssertUnwindSafe};

fn greeting() -> BytesMut {
    let mut g = [0u8; 64];
    g[0] = 0xff;
    g[9] = 0x7f;
    g[10] = 3;
    g[12..16].copy_from_slice(b"NULL");
    BytesMut::from(&g[..])
}

fn after_greeting(tail: &[u8]) -> (ZmqCodec, BytesMut) {
    let mut c = ZmqCodec::new();
    let mut b = greeting();
    assert!(matches!(c.decode(&mut b), Ok(Some(Message::Greeting(_)))));
    b.extend_from_slice(tail);
    (c, b)
}

#[test]
fn f1_compatible_is_total() {
    let all = [
        SocketType::PAIR, SocketType::PUB, SocketType::SUB, SocketType::REQ, SocketType::REP, SocketType::DEALER,
        SocketType::ROUTER, SocketType::PULL, SocketType::PUSH, SocketType::XPUB, SocketType::XSUB, SocketType::STREAM,
    ];
    for a in all {
        for b in all {
            let r = catch_unwind(|| (a.compatible(b), b.compatible(a)));
            assert!(r.is_ok(), "compatible({a},{b}) panicked");
            let (x, y) = r.unwrap();
            assert_eq!(x, y, "not symmetric for {a},{b}");
        }
    }
}

#[test]
fn f2_declared_length_reserves_nothing() {
    let (mut c, mut b) = after_greeting(&[0x02, 0x7f, 0xff, 0xff, 0xff, 0xff, 0xff, 0xff, 0xff]);
    let r = catch_unwind(AssertUnwindSafe(|| c.decode(&mut b).map(|_| ())));
    assert!(r.is_ok(), "decode panicked on a 9 byte long-frame header");
    let (mut c, mut b) = after_greeting(&[0x02, 0, 0, 0, 0x10, 0, 0, 0, 0]);
    let _ = c.decode(&mut b);
    assert!(b.capacity() < (1 << 20), "9 bytes from the peer made the library reserve {} bytes", b.capacity());
}

#[test]
fn f3_command_parser_never_panics() {
    for tail in [&[0x04u8, 0x00][..], &[0x04, 0x01, 0x09], &[0x04, 0x07, 5, b'R', b'E', b'A', b'D', b'Y', 3],
                 &[0x04, 0x08, 5, b'R', b'E', b'A', b'D', b'Y', 1, b'a'],
                 &[0x04, 0x0c, 5, b'R', b'E', b'A', b'D', b'Y', 1, b'a', 0, 0, 0, 9]] {
        let (mut c, mut b) = after_greeting(tail);
        let r = catch_unwind(AssertUnwindSafe(|| c.decode(&mut b).map(|_| ())));
        assert!(r.is_ok(), "decode panicked on command frame {tail:02x?}");
    }
}

#[test]
fn f4_many_frames_in_one_read_do_not_overflow_the_stack() {
    // a spawned thread has the 2 MiB stack tokio worker threads also use
    let h = std::thread::spawn(|| {
        let mut tail = Vec::new();
        for _ in 0..4000 {
            tail.extend_from_slice(&[0x01, 0x00]);
        }
        tail.extend_from_slice(&[0x00, 0x00]);
        let (mut c, mut b) = after_greeting(&tail);
        match c.decode(&mut b) {
            Ok(Some(Message::Message(m))) => m.len(),
            _ => 0,
        }
    });
    assert_eq!(h.join().unwrap(), 4001);
}

#[tokio::test]
async fn f5_rep_never_returns_a_zero_frame_message() {
    let mut rep = RepSocket::new();
    let ep = rep.bind("tcp://127.0.0.1:0").await.unwrap();
    let mut dealer = DealerSocket::new();
    dealer.connect(&ep.to_string()).await.unwrap();
    let mut m = ZmqMessage::from("x");
    m.push_back(bytes::Bytes::new());
    dealer.send(m).await.unwrap();
    let r = async_rt::task::timeout(std::time::Duration::from_secs(2), rep.recv()).await;
    if let Ok(Ok(msg)) = r {
        assert!(msg.len() >= 1, "REP handed the application a message with zero frames");
    }
}

#[tokio::test]
async fn f6_abandoned_req_recv_still_owes_the_recv() {
    let mut rep = RepSocket::new();
    let ep = rep.bind("tcp://127.0.0.1:0").await.unwrap();
    let mut req = ReqSocket::new();
    req.connect(&ep.to_string()).await.unwrap();
    req.send("first".into()).await.unwrap();
    // abandon the recv at its suspension point (the server has not replied)
    let r = async_rt::task::timeout(std::time::Duration::from_millis(50), req.recv()).await;
    assert!(r.is_err(), "recv should still be pending");
    // the request is still outstanding: a second send must be refused ...
    let second = req.send("second".into()).await;
    assert!(second.is_err(), "REQ accepted a second request while the first is outstanding");
    // ... and the reply to the first request is still deliverable
    let got = rep.recv().await.unwrap();
    assert_eq!(String::try_from(got).unwrap(), "first");
    rep.send("reply-1".into()).await.unwrap();
    let reply = req.recv().await.unwrap();
    assert_eq!(String::try_from(reply).unwrap(), "reply-1");
}
