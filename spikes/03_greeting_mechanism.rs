use vstd::prelude::*;
use bytes::{Buf, BufMut, Bytes, BytesMut};
use std::convert::TryFrom;
verus! {
global size_of usize == 8;

#[verifier::external_type_specification]
#[verifier::external_body]
pub struct ExBytesMut(BytesMut);

#[verifier::external_type_specification]
#[verifier::external_body]
pub struct ExBytes(Bytes);

pub uninterp spec fn bm_view(b: &BytesMut) -> Seq<u8>;
pub uninterp spec fn b_view(b: &Bytes) -> Seq<u8>;

pub assume_specification[ Bytes::len ](b: &Bytes) -> (r: usize)
    ensures r == b_view(b).len();
pub assume_specification[ <Bytes as core::ops::Deref>::deref ](b: &Bytes) -> (r: &[u8])
    ensures r@ == b_view(b);
pub assume_specification[ BytesMut::with_capacity ](c: usize) -> (r: BytesMut)
    ensures bm_view(&r) == Seq::<u8>::empty();
pub assume_specification[ BytesMut::extend_from_slice ](b: &mut BytesMut, s: &[u8])
    ensures bm_view(final(b)) == bm_view(old(b)) + s@;

pub enum CodecError {
    Command(&'static str),
    Greeting(&'static str),
    Mechanism(&'static str),
    Decode(&'static str),
    Other(&'static str),
}

#[derive(Copy, Clone, Default)]
pub enum ZmqMechanism {
    #[default]
    NULL,
    PLAIN,
    CURVE,
}

impl ZmqMechanism {
    pub const fn as_str(&self) -> &'static str {
        match self {
            ZmqMechanism::NULL => "NULL",
            ZmqMechanism::PLAIN => "PLAIN",
            ZmqMechanism::CURVE => "CURVE",
        }
    }
}

impl TryFrom<&[u8]> for ZmqMechanism {
    type Error = CodecError;

    #[verifier::external_body]
    fn try_from(value: &[u8]) -> Result<Self, Self::Error> {
        let mech = value.split(|x| *x == 0x0).next().unwrap_or_default();
        // mechanism-char = "A"-"Z" | DIGIT
        //                  | "-" | "_" | "." | "+" | %x0
        // according to https://rfc.zeromq.org/spec:23/ZMTP/
        match mech {
            b"NULL" => Ok(ZmqMechanism::NULL),
            b"PLAIN" => Ok(ZmqMechanism::PLAIN),
            b"CURVE" => Ok(ZmqMechanism::CURVE),
            _ => Err(CodecError::Mechanism("Failed to parse ZmqMechanism")),
        }
    }
}

pub type ZmtpVersion = (u8, u8);

#[derive(Copy, Clone)]
pub struct ZmqGreeting {
    pub version: ZmtpVersion,
    pub mechanism: ZmqMechanism,
    pub as_server: bool,
}

impl TryFrom<Bytes> for ZmqGreeting {
    type Error = CodecError;

    fn try_from(value: Bytes) -> Result<Self, Self::Error> {
        if value.len() != 64 || !(value[0] == 0xff && value[9] == 0x7f) {
            return Err(CodecError::Greeting("Failed to parse greeting"));
        }
        Ok(ZmqGreeting {
            version: (value[10], value[11]),
            mechanism: ZmqMechanism::try_from(&value[12..32])?,
            as_server: value[32] == 0x01,
        })
    }
}

impl vstd::std_specs::convert::TryFromSpecImpl<Bytes> for ZmqGreeting {
    open spec fn obeys_try_from_spec() -> bool { false }
    open spec fn try_from_spec(v: Bytes) -> Result<Self, CodecError> { arbitrary() }
}
impl From<ZmqGreeting> for BytesMut {
    fn from(greet: ZmqGreeting) -> Self {
        let mut data: [u8; 64] = [0; 64];
        data[0] = 0xff;
        data[9] = 0x7f;
        data[10] = greet.version.0;
        data[11] = greet.version.1;
        let mech = greet.mechanism.as_str();
        data[12..12 + mech.len()].copy_from_slice(mech.as_bytes());
        data[32] = greet.as_server.into();
        let mut bytes = BytesMut::with_capacity(64);
        bytes.extend_from_slice(&data);
        bytes
    }
}

} // verus!
fn main() {}
