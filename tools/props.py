"""Per-property configuration: which units / functions / obligation kinds / Kani harnesses decide it."""

F = {'post', 'inv-entry', 'inv-end', 'assert'}                                    # functional obligations
S = {'pre', 'overflow', 'decreases', 'div0', 'shift', 'unreachable'}              # body-safety obligations
A = F | S

COMMON_TRUSTED = [
    'Verus 0.2026.09.13 + z3; Kani 0.68 + CBMC 6.11; rustc',
    'extractor tools/extract.py: drops D1-D5 only (listed per function under coverage.extraction[].drops)',
    "unsafe code inside `bytes`, std and the other dependencies (zeromq itself is built with -Dunsafe_code)",
]
COMMON_ASSUMPTIONS = [
    '64-bit target (usize == u64); Verus checks machine-integer overflow on every exec operation, integers in spec functions are mathematical',
    'assumed specifications of the `bytes` crate and of the std functions vstd does not cover (prelude/bytes_specs.rs, prelude/std_specs.rs): sequence semantics with the real panic conditions as preconditions',
    'Bytes::clone returns an equal value (second handle on the same immutable octets)',
]

KANI_DOMAIN = {
    'compat_table': 'all 12x12 socket type pairs',
    'mech_parse': 'all 2^160 values of the 20 octet mechanism field',
    'socktype_parse': 'all octet strings of length <= 8 (names are <= 6 octets)',
    'socktype_as_str': 'the twelve socket types',
    'greeting_ser': 'every version (u8,u8) x 3 mechanisms x as_server in {false,true}',
    'greeting_default': 'the single default greeting',
    'cmd_parse_nopanic': 'all command frame bodies of length <= N (see harness)',
    'encode_loop': 'messages of 1..=3 frames with bodies of 0..=2 symbolic octets',
    'ready_ser': 'READY for every socket type, identity absent or 1..=3 symbolic octets',
}

# (regex on "<unit>::<fn>", counterexample harness)
CEX_HARNESS = [
    (r'^codec::encode_frame$', 'cex_encode_frame'),
    (r'^codec::ZmqCodec::decode$', 'cex_decode'),
    (r'^handshake::SocketType::compatible$', 'compat_table'),
]

MSG_FNS = r'^ZmqMessage::|ZmqMessage as '

PROPS = {
    'C01': {
        'units': ['codec'],
        'scope': [
            ('codec', r'^encode_frame$', A, None),
            ('codec', r'^ZmqCodec::decode$', F, r'^(?!bm_reserved)'),
            ('codec', r'^ZmqCodec::new$', A, None),
            ('codec', r'ZmqGreeting as TryFrom', A, None),
            ('codec', r'ZmqMechanism as TryFrom', A, None),
            ('codec', r'ZmqCommand as TryFrom', A, None),
            ('codec', r'^ZmqMessage::push_back$|ZmqMessage as From<Bytes>', A, None),
            ('codec', r'^tmpl::lemma_(roundtrip|rfc_msg|be64)', A, None),
        ],
        'kani': {
            'quick': [('greeting_ser', 'complete'), ('greeting_default', 'complete'), ('mech_parse', 'complete')],
            'thorough': [('greeting_ser', 'complete'), ('greeting_default', 'complete'), ('mech_parse', 'complete')],
        },
        'assumptions': [],
        'not_covered': [],
    },
    'C02': {
        'units': ['codec'],
        'scope': [
            ('codec', r'^ZmqCodec::decode$', F, r'^(?!bm_reserved)'),
            ('codec', r'^ZmqCodec::new$', A, None),
            ('codec', r'^ZmqMessage::push_back$|ZmqMessage as From<Bytes>', A, None),
            ('codec', r'^tmpl::lemma_(seg|run)_', A, None),
        ],
        'kani': {},
        'assumptions': [],
        'not_covered': [],
    },
    'C03': {
        'units': ['codec'],
        'scope': [
            ('codec', r'^ZmqCodec::decode$', S, None),
            ('codec', r'^ZmqCodec::decode$', {'post'}, r'^bm_reserved'),
            ('codec', r'^ZmqCodec::decode$', {'inv-entry', 'inv-end'}, r'bm_reserved|wf\(\)'),
            ('codec', r'^ZmqCodec::new$', A, None),
            ('codec', r'ZmqGreeting as TryFrom', S, None),
            ('codec', r'^ZmqMessage::push_back$|ZmqMessage as From<Bytes>', S, None),
        ],
        'kani': {
            'quick': [('mech_parse', 'complete')],
            'thorough': [('mech_parse', 'complete')],
        },
        'assumptions': [],
        'not_covered': [],
    },
}
